#!/bin/sh
# Builds the zsx engine offline from /verif/engine (module cache only).
set -e
cd "$(dirname "$0")"
export GOFLAGS=-mod=mod GOPROXY=off GOSUMDB=off GOTOOLCHAIN=local
mkdir -p bin evidence
(cd engine && go build -o ../bin/zsx ./cmd/zsx)
echo setup ok
