#!/usr/bin/env python3
"""Regenerates MANIFEST.json from plan.py (which harnesses decide which property) and the texts below."""
import json, os, subprocess, sys
ROOT = os.path.dirname(os.path.abspath(__file__))
sys.path.insert(0, ROOT)
from plan import PLAN

TECH = "bounded symbolic execution of the real Go code (own go/ssa interpreter zsx) with SMT-decided branches and assertions (z3, cvc5); counterexamples replayed natively"

CLAIM = {
 "C01": ("Every batch shape inside the bound (documents x fields x terms x locations, multi-valued and composite fields whose locations name other fields, locations without the term-vector option, empty and 2-byte terms, freq 0) is built by the real builder and queried through the real reader under the interpreter; frequencies, field lengths, positions, offsets, array positions and the chunk mode are SMT variables, so each path is decided for all their values; codec kernels (varint, freq/hasLocs, single-hit) at full 64-bit width; 600-1100-document builds for the cardinality-dependent chunk sizes; the same batches under the vectors build tag; a segment checked again after later builds.", "5 C01"),
 "C02": ("Stored fields, DocID, DocNumbers, Count, Fields and early-stopping visitors for every stored-value shape inside the bound (type bytes and array positions symbolic, values of 0 bytes up to 70 000 bytes), on built, re-opened and merged segments (three inputs with their own field lists), and on segments read again after later builds.", "5 C02"),
 "C03": ("Doc values for every visiting order (with repeats, length <= 4) with one reused visit state, in memory and re-opened, for every doc-value chunk size 1..1024 (symbolic); geo-shape extra terms, the doc-values option differing between occurrences of a field, the visit state carried to a second segment with symbolic fields; the opened-file offset reader at full width.", "5 C03"),
 "C04": ("Persist+Open state equality and answer equality, WriteTo == Persist bytes, footer fields and CRC (as an uninterpreted fold over all preceding bytes) for every batch shape in the bound and every chunk mode; footer writer and doc-value offset reader at full width; composite fields, a field that is both a text field and a thesaurus, doc-value data above 128 bytes; also under the vectors build tag.", "5 C04"),
 "C05": ("Merge of two and three inputs (built / re-opened, each with its own field list) with every deletion set: renumbering maps, size, Count, Fields, stored values, DocID, DocNumbers against an independent reference; both stored-data paths (byte copy, re-encode); 70 000-byte values; what holds when nothing survives.", "5 C05"),
 "C06": ("Postings (freq, norm, locations with field names, composite postings naming two fields) and doc values (chunks of 1-2 documents, geo-shape terms) of the merged segment against the reference semantics of the survivors, all three merge branches (byte copy, re-encode, single-hit); 1100-document merges across the 1024 boundaries; the re-encode step with a symbolic field id.", "5 C06"),
 "C07": ("Every Next/Advance sequence (length <= L) over every postings set and exclusion set on <= N documents, symbolic chunk mode, all detail-flag combinations, general and single-hit encodings, object reuse on built and merged segments, ReplaceActual, the shared empty list as preallocation; Advance across chunk boundaries at 600-1100 documents.", "5 C07"),
 "C08": ("Dictionary enumeration for every term set over a 5-term alphabet x provenance (built, opened, merged once/twice, merged behind a segment lacking the field) x automata x key ranges, with counts, Contains and Cardinality.", "5 C08"),
 "C09": ("Files written by Persist and Merge are decoded by an independent reader written from the documented layout (frozen in /verif; postings, locations, stored data, doc-value blocks) and must decode to the content that went in; chunk-size rule and footer against frozen references at full width; four files written by the pinned release are read by the current code.", "5 C09"),
 "C10": ("B after A on the pooled builder (pool model hands the same builder back) equals B's reference semantics, for asymmetric shape pairs (doc values, extra fields, geo shapes, synonyms, failing build of A, independently chosen sizes, synonym batches in a row and followed by plain ones, vector and plain batches in either order); a build writes no package-level state; earlier segments are unchanged by later builds.", "5 C10"),
 "C11": ("Per-call ownership/effect obligations (reduction R1): after any two reader operations the scratch pool never holds one object twice; reader operations write only to owned, guarded or atomic state; answers unchanged on warm caches.", "5 C11"),
 "C12": ("Thesaurus lookups for every definition shape in the bound (2 thesauri, empty and non-empty left-hand terms, shared synonyms) x exclusion sets x re-open x object reuse; term listings through key ranges and automata; a field name that is also an ordinary text field; synonym batches built in a row; also under the vectors build tag.", "5 C12"),
 "C13": ("Merged thesauri against the reference pairs of the survivors for every definition shape and deletion set in the bound, second-generation merge in the thorough tier.", "5 C13"),
 "C17": ("A write fault at every Write/Sync/Close call of Persist and Merge (buffers 1, 16 and 64 bytes; three kinds of inputs) and at every call of a WriteTo target (four kinds of segment, short-write classes including silent ones): error and no file and closed handle, or complete re-openable output; inputs and scratch pool intact afterwards.", "5 C17"),
 "C18": ("The close channel turns closed at every poll of the merge (and before the call), text, synonym and vector merges: ErrClosed and no file (and no engine index left), or a complete correct file; inputs and scratch pool intact afterwards.", "5 C18"),
 "C20": ("Every AddRef/DecRef/Close/read sequence up to the bound on an opened plain or synonym segment in the virtual file system: mapping and descriptor live while referenced, released exactly once at the last drop; failing Open (open, mmap, load) and failing unmap release what was acquired; counter, mapping and descriptor only touched under the mutex.", "5 C20"),
 "C14": ("Vector search against an exact pure-Go stand-in for go-faiss: returned (doc, score) pairs are true scores of non-excluded, eligible documents, at most k, exactly the k best; statistics; persist+open; 1100 vectors (clustered index class); two fields with different metrics; no vector index on a plain segment built after a vector batch.", "5 C14"),
 "C15": ("Merged vector sections hold exactly the survivors' vectors under the new numbering (stand-in engine), sparse fields included; fields without survivors carry no index.", "5 C15"),
 "C16": ("Event sequences open/search/close/expiry/segment-close on the vector cache (stand-in engine, expiry as explicit event), one and two vector fields: answers equal those of a fresh segment, every index released exactly once, entries cached iff held after a quiet period; cache map and entry state only touched under the cache's lock.", "5 C16"),
 "C19": ("Each engine call of a build/merge made to fail, for every n of the fault-free run (stand-in engine, one or two vector fields, clustered path): an error is returned, no file is left, no index leaks or is closed twice.", "5 C19"),
}

NOTE = "Bounded claim: holds for every value of the symbolic numbers on every explored path inside the stated shape bounds (see evidence bounds / outside_the_claim). Trusted: the zsx interpreter and its models of sync, files, mmap, crc32 (uninterpreted), the natively executed libraries roaring, vellum, snappy, the reference semantics in harness/spec*.go, z3/cvc5. Timeouts/unknowns are reported as incomplete, never as success."


def main():
    props = [json.loads(l)["id"] for l in open(os.path.join(ROOT, "properties.jsonl"))]
    na_reasons = json.load(open(os.path.join(ROOT, "not_applicable.json"))) if os.path.exists(os.path.join(ROOT, "not_applicable.json")) else {}
    hooks = subprocess.run(["git", "-C", "/repo", "log", "--format=%H %s"], capture_output=True, text=True).stdout.splitlines()
    hook_commits = [l.split()[0] for l in hooks if l.split(" ", 1)[1].startswith("verif:")]
    checks = []
    for pid in props:
        if pid not in PLAN:
            continue
        claim, ref = CLAIM[pid]
        checks.append({
            "property_id": pid,
            "quick_cmd": "./check %s quick" % pid,
            "thorough_cmd": "./check %s thorough" % pid,
            "evidence_file": "evidence/%s.json" % pid,
            "replay_cmd_template": "./check --replay {path}",
            "engine": "zsx",
            "level_claimed": {"category": "model_checking", "text": claim, "design_ref": "DESIGN.md section " + ref},
            "level_note": NOTE,
            "technique": TECH,
        })
    m = {
        "version": 1,
        "setup_cmd": "./setup.sh",
        "hooks": {
            "guard": "verif",
            "enable": "go build/test -tags verif (checks load and replay /repo with the tag; harnesses are injected by go/packages and go test overlays)",
            "baseline_off_cmd": "cd /repo && GOFLAGS=-mod=mod GOPROXY=off go test -vet=off -count=1 ./...",
            "source_commits": hook_commits,
            "add_only": True,
        },
        "engines": [{"name": "zsx", "path": "engine", "serves_properties": [c["property_id"] for c in checks],
                     "kind_free_text": "symbolic interpreter of go/ssa over the real zapx code; SMT (z3 4.8.12, cvc5 1.0.3, z3 5.1.0) decides branches and assertions; native replay via go test -overlay"}],
        "checks": checks,
        "not_applicable": [{"property_id": p, "reason": na_reasons.get(p, "check not built yet")} for p in props if p not in PLAN],
        "notes": "fix: commits in /repo repair genuine defects found by the checks (see known_findings.json and DESIGN.md section 6).",
    }
    json.dump(m, open(os.path.join(ROOT, "MANIFEST.json"), "w"), indent=1)
    print("checks:", len(checks), "not_applicable:", len(m["not_applicable"]))


if __name__ == "__main__":
    main()
