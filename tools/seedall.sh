#!/bin/sh
# seedall.sh [seed ...]: run every seeded change (or the given ones) against the quick check of its property.
here=$(cd "$(dirname "$0")/.." && pwd)
cd $here
seeds="$@"; [ -z "$seeds" ] && seeds=$(ls seeded)
for s in $seeds; do
  p=${s%%-*}; [ "$s" = "C03-e" ] && p=C06; [ "$s" = "C08-e" ] && p=C06; [ "$s" = "C11-e" ] && p=C03; [ "$s" = "C01-f" ] && p=C09; [ "$s" = "C07-g" ] && p=C01   # (a merge defect filed under C03 by its author: C06 is the property that covers it)
  ./seedtest.sh $s $p 2>&1 | tail -1
done
