#!/usr/bin/env python3
"""shrun.py <harness> <nshards> <wall> [param] [--vec] [--repo R] [--skip ids]: run a harness over n shards in parallel, print totals (tuning aid)."""
import sys, os, json, subprocess, time, glob
from concurrent.futures import ThreadPoolExecutor
args = sys.argv[1:]
vec = "--vec" in args
repo = "/repo"
skip = "C05-nothing-survives,C16-cache-remembers-exclusions,C14-filtered-search-on-warm-cache-ignores-exclusions"
if "--repo" in args:
    i = args.index("--repo"); repo = args[i + 1]; del args[i:i + 2]
args = [a for a in args if a != "--vec"]
h, n, wall = args[0], int(args[1]), args[2]
param = args[3] if len(args) > 3 else ""
env = dict(os.environ, GOFLAGS="-mod=mod", GOPROXY="off", GOSUMDB="off", GOTOOLCHAIN="local")
mods = glob.glob("/verif/build/p*/vectors.mod")
def run(i):
    out = "/tmp/shrun-%d-%d.json" % (os.getpid(), i)
    cmd = [os.environ.get("ZSX", "/verif/bin/zsx"), "-repo", repo, "-harness-dir", os.environ.get("HDIR", "/verif/harness"), "-harness", h, "-out", out, "-wall", wall, "-skip-known", skip, "-max-violations", "2"]
    cmd += ["-tags", "vectors,verif", "-modfile", mods[0]] if vec else ["-tags", "verif"]
    if n > 1: cmd += ["-shard", "%d/%d" % (i, n)]
    if param: cmd += ["-param", param]
    if os.environ.get("SHARD_DEPTH"): cmd += ["-shard-depth", os.environ["SHARD_DEPTH"]]
    t = time.time(); r = subprocess.run(cmd, env=env, capture_output=True, text=True)
    try: d = json.load(open(out)); os.remove(out)
    except Exception: return {"err": r.stderr[-500:]}
    d["_t"] = time.time() - t
    return d
t0 = time.time()
with ThreadPoolExecutor(16) as ex: res = list(ex.map(run, range(n)))
bad = [r for r in res if "err" in r]
ok = [r for r in res if "err" not in r]
print("paths=%d ok=%d viol=%d queries=%d incomplete=%s maxshard=%.1fs wall=%.1fs errs=%d" % (
    sum(r["paths"] for r in ok), sum(r["paths_ok"] for r in ok), sum(len(r.get("violations") or []) for r in ok),
    sum(r["queries"]["Queries"] for r in ok), sorted(set(sum([r.get("incomplete") or [] for r in ok], []))), max([r["_t"] for r in ok] or [0]), time.time() - t0, len(bad)))
for r in ok:
    for v in (r.get("violations") or [])[:2]:
        print("  VIOL", v["site"], v["msg"][:200], [(i["name"], i["value"]) for i in v["inputs"] if i["value"]][:30])
for b in bad[:2]: print("  ERR", b["err"])
