package zap

// Harness runtime. Under the zsx engine every function in this file is
// intercepted by name (the bodies below are never interpreted): inputs become
// SMT variables, vAssume/vAssert become solver queries. Compiled natively (for
// replaying a counterexample or validating the engine against the real build)
// the same functions read the input assignment of the replay file.

import (
	"fmt"
	"hash/crc32"
	"runtime"
	"runtime/debug"
	"time"

	"github.com/blevesearch/vellum"
)

type vSkip struct{}
type vFailNow struct{ site string }

var vState struct {
	inputs   map[string]uint64
	failed   []string
	observed []string
	notes    []string
	env      map[string]string
}

var vHarnesses = map[string]func(){}

func vRegister(name string, f func()) { vHarnesses[name] = f }

func vIn(name string) uint64 { return vState.inputs[name] }

func vU8(name string) uint8   { return uint8(vIn(name)) }
func vU16(name string) uint16 { return uint16(vIn(name)) }
func vU32(name string) uint32 { return uint32(vIn(name)) }
func vU64(name string) uint64 { return vIn(name) }
func vInt(name string) int    { return int(vIn(name)) }
func vBool(name string) bool  { return vIn(name) != 0 }

// vChoice returns a value in [0,n); the engine explores every value.
func vChoice(name string, n int) int {
	if n <= 1 {
		return 0
	}
	v := vIn(name)
	if v >= uint64(n) {
		panic(vSkip{})
	}
	return int(v)
}

// vSymbolic is true under the engine, false natively.
func vSymbolic() bool { return false }

func vAssume(c bool) {
	if !c {
		panic(vSkip{})
	}
}

func vAssert(c bool, site string) {
	if !c {
		vState.failed = append(vState.failed, site)
		panic(vFailNow{site})
	}
}

func vFail(site string) { vAssert(false, site) }

// Non-short-circuit connectives: they keep the condition one term instead of forking the path.
func vAnd(a, b bool) bool     { return a && b }
func vOr(a, b bool) bool      { return a || b }
func vNot(a bool) bool        { return !a }
func vImplies(a, b bool) bool { return !a || b }
func vIteU64(c bool, a, b uint64) uint64 {
	if c {
		return a
	}
	return b
}

func vBytesEq(a, b []byte) bool {
	if len(a) != len(b) {
		return false
	}
	for i := range a {
		if a[i] != b[i] {
			return false
		}
	}
	return true
}

// vObserve records a value for translation validation (engine value under the
// path's model must equal the native value).
func vObserve(name string, v uint64) {
	vState.observed = append(vState.observed, fmt.Sprintf("%s=%d", name, v))
}

func vNote(name string) { vState.notes = append(vState.notes, name) }

// vRunSpawned: under the engine the queued goroutine bodies run now; natively give them time to finish.
func vRunSpawned() {
	for i := 0; i < 20; i++ {
		runtime.Gosched()
	}
	time.Sleep(5 * time.Millisecond)
}

func vIsConcrete(v uint64) bool { return true }

// vPanics runs f and reports whether it panicked.
func vPanics(f func()) (p bool) {
	defer func() {
		if r := recover(); r != nil {
			switch r.(type) {
			case vSkip, vFailNow:
				panic(r)
			}
			p = true
		}
	}()
	f()
	return false
}

// vSkipKnown reports whether the region of a recorded known finding is to be
// left out of this run (the check runs that region separately, pinned to the
// recorded input). Natively the region is skipped only when the replay file says so (validation of
// passing paths); the replay of a counterexample never skips.
func vSkipKnown(id string) bool { return vState.env["skip."+id] == "1" }

// vCRC is the reference CRC-32 (IEEE) of b; under the engine a fold of an uninterpreted step function
// when bytes are symbolic, so equality of two CRCs means equality of the byte sequences.
func vCRC(b []byte) uint32 { return crc32.ChecksumIEEE(b) }

func vCRCFrom(crc uint32, b []byte) uint32 { return crc32.Update(crc, crc32.IEEETable, b) }

// vParam is a concrete harness parameter (bound), set per tier by the check driver.
func vParam(name string, def int) int {
	if s, ok := vState.env["param."+name]; ok {
		n := 0
		fmt.Sscan(s, &n)
		return n
	}
	return def
}

// vAlwaysMatch returns vellum's match-everything automaton (a native library object under the engine).
func vAlwaysMatch() vellum.Automaton { return &vellum.AlwaysMatch{} }

// vPoolDeterministic makes the real sync.Pool behave like the model for a replay (one P, no GC).
func vPoolDeterministic() {
	runtime.GOMAXPROCS(1)
	debug.SetGCPercent(-1)
}

// vShare marks everything reachable from root as shared (effect monitor on); natively a no-op.
func vShare(root any) {}
func vUnshare()       {}

// vGuard declares that *field is protected by *mutex (lockset monitor of the engine); natively a no-op.
func vGuard(field any, mutex any) {}

// vGuardAny: like vGuard, but the mutex held in read mode also covers updates (fields updated atomically under a read lock).
func vGuardAny(field any, mutex any) {}

// vGuardMap declares that map m is protected by *mutex (lockset monitor); natively a no-op.
func vGuardMap(m any, mutex any) {}

// vShareGlobals marks every package-level variable (and what it reaches) as shared state that the code under
// test must not write outside locks / atomics (effect monitor); natively a no-op.
func vShareGlobals() {}

// vPin fixes the value of a named input (concrete instances of the generators, e.g. the corpus batches).
func vPin(name string, v uint64) {
	if vState.inputs == nil {
		vState.inputs = map[string]uint64{}
	}
	vState.inputs[name] = v
}
