package zap

import (
	"bytes"
	"encoding/binary"

	segment "github.com/blevesearch/scorch_segment_api/v2"
)

func init() {
	vRegister("H04_persist", H04_persist)
	vRegister("K7_footer", K7_footer)
	vRegister("H04_manyfields", H04_manyfields)
}

var vLongTerm = func() string {
	// (incompressible, so that the snappy-compressed chunk stays above 128 bytes; no 0xff separator byte)
	b := make([]byte, 200)
	x := uint32(12345)
	for i := range b {
		x = x*1103515245 + 12345
		b[i] = byte(x>>16) % 251
	}
	return string(b)
}()

func vStdCfg(prefix, idBase string, nDocs int, wide int) gCfg {
	if vParam("comp", 0) == 1 {
		// the second field is a composite field whose locations name the (always present) first field
		return gCfg{prefix: prefix, idBase: idBase, nDocs: nDocs, wide: wide, maxAP: 1, idDV: true,
			fields: []gField{
				{name: "f", terms: []string{""}, tv: true, maxLocs: 1, dv: true, store: true, always: true},
				{name: "c", terms: []string{"é"}, tv: true, maxLocs: 2, fixLocs: true, comp: true, locFields: []string{"f", ""}, noTVOpt: true},
			}}
	}
	if vParam("longTerm", 0) == 1 {
		// an incompressible doc-value term of 200 bytes: chunk data of 128 bytes and more (two-byte varints in the chunk tables)
		// (and two stored values of 2 and 3 bytes per document: the second one starts at a non-zero offset)
		return gCfg{prefix: prefix, idBase: idBase, nDocs: nDocs, wide: wide, maxAP: 1, idDV: true, storeAll: true, valLens: []int{2, 3},
			fields: []gField{
				{name: "f", terms: []string{""}, tv: true, maxLocs: 1, dv: true, store: true, always: true},
				{name: "g", terms: []string{vLongTerm}, dv: true, store: true, always: true},
			}}
	}
	if vParam("lite", 0) == 1 {
		return gCfg{prefix: prefix, idBase: idBase, nDocs: nDocs, wide: wide, maxAP: 1, idDV: true,
			fields: []gField{
				{name: "f", terms: []string{""}, tv: true, maxLocs: 1, dv: true, store: true},
				{name: "g", terms: []string{"é"}, dv: true},
			}}
	}
	return gCfg{prefix: prefix, idBase: idBase, nDocs: nDocs, wide: wide, freqZero: true, maxAP: 1, idDV: true,
		fields: []gField{
			{name: "f", terms: []string{"", "a"}, tv: true, maxLocs: 1, dv: true, store: true},
			{name: "g", terms: []string{"é"}, dv: true},
		}}
}

// sbStateEq: the state every query is a function of is equal in both segments.
func sbStateEq(a, b *SegmentBase, tag string) {
	vAssert(vBytesEq(a.mem, b.mem), tag+"mem")
	vAssert(a.numDocs == b.numDocs, tag+"numDocs")
	vAssert(a.chunkMode == b.chunkMode, tag+"chunkMode")
	vAssert(a.storedIndexOffset == b.storedIndexOffset, tag+"storedIndexOffset")
	vAssert(a.sectionsIndexOffset == b.sectionsIndexOffset, tag+"sectionsIndexOffset")
	vAssert(len(a.fieldsInv) == len(b.fieldsInv), tag+"fieldsInv-len")
	for i := range a.fieldsInv {
		vAssert(a.fieldsInv[i] == b.fieldsInv[i], tag+"fieldsInv")
		vAssert(a.fieldsMap[a.fieldsInv[i]] == b.fieldsMap[a.fieldsInv[i]], tag+"fieldsMap")
	}
	vAssert(len(a.dictLocs) == len(b.dictLocs), tag+"dictLocs-len")
	for i := range a.dictLocs {
		vAssert(a.dictLocs[i] == b.dictLocs[i], tag+"dictLocs")
	}
}

// H04_persist: build, Persist, Open: equal state, equal answers; WriteTo == file bytes; footer content.
func H04_persist() {
	docs, sp := vGenBatch(vStdCfg("", "d", vChoice("nDocs", 1+vParam("maxDocs", 2)), -1)) // also the empty batch
	mode := vChunkMode()
	var z ZapPlugin
	if vBool("priorBuild") {
		// the pooled builder (and whatever it keeps between builds) has been used for another batch before
		prior, _ := vGenBatchFixed(gCfg{prefix: "p", idBase: "p", nDocs: 2, wide: -1,
			fields: []gField{{name: "f", terms: []string{"z", "y"}, dv: true, store: true, fixFreq: true}, {name: "h", terms: []string{"x"}, fixFreq: true}}})
		_, _, err := z.newWithChunkMode(prior, DefaultChunkMode)
		vAssert(err == nil, "prior-build")
	}
	seg, _, err := z.newWithChunkMode(docs, mode)
	vAssert(err == nil, "build")
	sb := seg.(*SegmentBase)
	path := vP("seg.zap")
	vAssert(sb.Persist(path) == nil, "persist")
	vAssert(vFSExists(path), "file-exists")
	vAssert(vFSOpenHandles() == 0, "persist-closed")
	file := vFSBytes(path)
	// WriteTo emits the same bytes
	var wb bytes.Buffer
	n, err := sb.WriteTo(&wb)
	vAssert(err == nil && int(n) == len(file), "writeto-n")
	vAssert(vBytesEq(wb.Bytes(), file), "writeto-bytes")
	// footer
	vAssert(len(file) == len(sb.mem)+FooterSize, "file-len")
	vAssert(vBytesEq(file[:len(sb.mem)], sb.mem), "file-body")
	ft := file[len(sb.mem):]
	vAssert(binary.BigEndian.Uint64(ft[0:8]) == uint64(len(docs)), "footer-numDocs")
	vAssert(binary.BigEndian.Uint64(ft[8:16]) == sb.storedIndexOffset, "footer-storedIndex")
	vAssert(binary.BigEndian.Uint64(ft[24:32]) == sb.sectionsIndexOffset, "footer-sectionsIndex")
	vAssert(binary.BigEndian.Uint32(ft[40:44]) == mode, "footer-chunkMode")
	vAssert(binary.BigEndian.Uint32(ft[44:48]) == 16, "footer-version")
	vAssert(binary.BigEndian.Uint32(ft[48:52]) == vCRC(file[:len(file)-4]), "footer-crc")

	osegI, err := z.Open(path)
	vAssert(err == nil, "open")
	oseg := osegI.(*Segment)
	vAssert(oseg.CRC() == vCRC(file[:len(file)-4]), "seg-crc")
	vAssert(oseg.Version() == 16, "seg-version")
	vAssert(oseg.ChunkMode() == mode, "seg-chunkmode")
	vAssert(oseg.NumDocs() == uint64(len(docs)), "seg-numdocs")
	sbStateEq(sb, &oseg.SegmentBase, "state-")
	sCheckPostings(oseg, sp, "o-")
	sCheckStored(oseg, sp, "o-")
	order := []int{}
	for d := range docs {
		order = append(order, d)
	}
	sCheckDocValues(oseg, sp, order, "o-")
	vAssert(oseg.Close() == nil, "close")
	var _ segment.Segment = oseg
}

// K7_footer: persistFooter writes, and Open's footer parser reads, the documented 52 bytes for all field values.
func K7_footer() {
	numDocs, sio, fio, secio, dvo := vU64("numDocs"), vU64("storedIndex"), vU64("fieldsIndex"), vU64("sectionsIndex"), vU64("dvOffset")
	mode, crc := vU32("mode"), vU32("crc")
	var buf bytes.Buffer
	w := NewCountHashWriter(&buf)
	// some body bytes first so that the crc continues over them
	body := []byte{vU8("b0"), vU8("b1")}
	_, _ = w.Write(body)
	vAssert(persistFooter(numDocs, sio, fio, secio, dvo, mode, crc, w) == nil, "footer-err")
	out := buf.Bytes()
	vAssert(len(out) == 2+FooterSize, "len")
	ft := out[2:]
	ok := binary.BigEndian.Uint64(ft[0:8]) == numDocs
	ok = vAnd(ok, binary.BigEndian.Uint64(ft[8:16]) == sio)
	ok = vAnd(ok, binary.BigEndian.Uint64(ft[16:24]) == fio)
	ok = vAnd(ok, binary.BigEndian.Uint64(ft[24:32]) == secio)
	ok = vAnd(ok, binary.BigEndian.Uint64(ft[32:40]) == dvo)
	ok = vAnd(ok, binary.BigEndian.Uint32(ft[40:44]) == mode)
	ok = vAnd(ok, binary.BigEndian.Uint32(ft[44:48]) == 16)
	vAssert(ok, "fields")
	// the crc written continues the given crc over the first 48 footer bytes
	want := vCRCFrom(crc, ft[:48])
	vAssert(binary.BigEndian.Uint32(ft[48:52]) == want, "crc")
	vAssert(w.Count() == 2+FooterSize, "count")
}

// H04_manyfields: segments with 127, 128 and 129 fields (the field count, the per-field table and field ids in
// stored records and locations cross one-byte varint boundaries): persisted, re-opened, compared.
func H04_manyfields() {
	nF := []int{127, 128, 129}[vChoice("nFields", 3)]
	var fields []gField
	for i := 0; i < nF-1; i++ { // (_id is a field as well)
		name := "f" + string([]byte{byte('0' + i/100), byte('0' + (i/10)%10), byte('0' + i%10)})
		gf := gField{name: name, terms: []string{"a"}, fixFreq: true}
		if i == nF-2 || i == 0 {
			// the first and the last field carry everything: term vectors, doc values, stored values
			gf = gField{name: name, terms: []string{"a", "b"}, tv: true, maxLocs: 1, fixLocs: true, dv: true, store: true, fixFreq: true}
		}
		fields = append(fields, gf)
	}
	docs, sp := vGenBatchFixed(gCfg{prefix: "", idBase: "d", nDocs: 2, wide: -1, noFx: true, fields: fields})
	var z ZapPlugin
	seg, _, err := z.newWithChunkMode(docs, DefaultChunkMode)
	vAssert(err == nil, "build")
	sb := seg.(*SegmentBase)
	path := vP("many.zap")
	vAssert(sb.Persist(path) == nil, "persist")
	file := vFSBytes(path)
	var wb bytes.Buffer
	n, err := sb.WriteTo(&wb)
	vAssert(err == nil && int(n) == len(file), "writeto-n")
	vAssert(vBytesEq(wb.Bytes(), file), "writeto-bytes")
	osegI, err := z.Open(path)
	vAssert(err == nil, "open")
	oseg := osegI.(*Segment)
	vAssert(oseg.NumDocs() == 2 && oseg.Version() == 16, "seg-footer")
	sbStateEq(sb, &oseg.SegmentBase, "state-")
	sCheckStored(oseg, sp, "o-")
	// postings of the fields around the boundary and of the rich ones
	for _, fi := range []int{0, 1, nF / 2, nF - 3, nF - 2} {
		name := fields[fi].name
		one := &sSpec{docs: sp.docs, fields: sp.fields, posts: []*sFieldPost{sp.fieldPost(name)}}
		sCheckPostings(oseg, one, "o-")
		sCheckPostings(seg, one, "m-")
	}
	sCheckDocValues(oseg, sp, []int{1, 0}, "o-")
	lCheckAgainstSpec(file, &sSpec{docs: sp.docs, fields: sp.fields, posts: []*sFieldPost{sp.fieldPost(fields[0].name), sp.fieldPost(fields[nF-2].name)}}, DefaultChunkMode, "l-")
	vAssert(oseg.Close() == nil, "close")
}
