package zap

import (
	index "github.com/blevesearch/bleve_index_api"
)

func init() { vRegister("E0_smoke", E0_smoke) }

// E0_smoke: a fixed two-document batch with symbolic frequency / field length;
// builds a real segment and reads one postings list back.
func E0_smoke() {
	f1 := vU64("freq1")
	len1 := vU64("len1")
	vAssume(f1 >= 1 && f1 < 100)
	vAssume(len1 < 1<<31)
	opts := index.IndexField | index.IncludeTermVectors | index.DocValues
	d0 := &vDoc{id: "a", fields: []index.Field{vIDField("a"),
		vTextField("body", int(len1), []vTerm{{term: "x", freq: int(f1), locs: []vLoc{{pos: 1, start: 0, end: 1}}}, {term: "y", freq: 1}}, opts, []byte("x y"), nil, 't')}}
	d1 := &vDoc{id: "b", fields: []index.Field{vIDField("b"),
		vTextField("body", 3, []vTerm{{term: "y", freq: 2}}, opts|index.StoreField, []byte("y y"), nil, 't')}}
	var z ZapPlugin
	seg, _, err := z.newWithChunkMode([]index.Document{d0, d1}, 1026)
	vAssert(err == nil, "build")
	vAssert(seg.Count() == 2, "count")
	dict, err := seg.Dictionary("body")
	vAssert(err == nil, "dict")
	pl, err := dict.PostingsList([]byte("x"), nil, nil)
	vAssert(err == nil, "pl")
	vAssert(pl.Count() == 1, "pl-count")
	it := pl.Iterator(true, true, true, nil)
	p, err := it.Next()
	vAssert(err == nil && p != nil, "next")
	vAssert(p.Number() == 0, "docnum")
	vAssert(p.Frequency() == f1, "freq")
	vAssert(p.(*Posting).NormUint64() == len1, "norm")
	vObserve("freq", p.Frequency())
	locs := p.Locations()
	vAssert(len(locs) == 1, "nlocs")
	vAssert(locs[0].Pos() == 1 && locs[0].End() == 1, "loc")
	p2, err := it.Next()
	vAssert(err == nil && p2 == nil, "end")
}
