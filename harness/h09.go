package zap

import (
	"github.com/RoaringBitmap/roaring/v2"
	segment "github.com/blevesearch/scorch_segment_api/v2"
)

func init() {
	vRegister("K1_chunksize", K1_chunksize)
	vRegister("K1_chunktable", K1_chunktable)
	vRegister("H09_layout", H09_layout)
	vRegister("H09_layout_merged", H09_layout_merged)
}

// K1_chunksize: getChunkSize equals the frozen v16 rule for every mode, cardinality and document count
// (32-bit cardinalities and document counts: postings are roaring bitmaps of uint32).
func K1_chunksize() {
	mode := vU32("mode")
	card := vU64("card")
	maxDocs := vU64("maxDocs")
	vAssume(card < 1<<32)
	vAssume(maxDocs < 1<<32)
	got, err := getChunkSize(mode, card, maxDocs)
	wantErr := false
	var want uint64
	switch {
	case mode == 0:
		wantErr = true
	case mode <= 1024:
		want = uint64(mode)
	case mode == 1025:
		if card <= 1024 {
			want = maxDocs
			wantErr = maxDocs == 0
		} else {
			want = 1024
		}
	case mode == 1026:
		want = maxDocs / (card/1024 + 1)
		vAssert((err != nil) == (want == 0), "err-1026")
		if err == nil {
			vAssert(got == want, "value-1026")
		}
		return
	default:
		wantErr = true
	}
	vAssert((err != nil) == wantErr, "err")
	if !wantErr {
		vAssert(got == want, "value")
		vAssert(got > 0, "positive")
	}
}

// K1_chunktable: whenever getChunkSize succeeds, every document number below maxDocs falls into a chunk
// the writer's table has (the table is sized (maxDocs-1)/size + 1), and the reader's 32-bit division
// agrees with the writer's 64-bit one.
func K1_chunktable() {
	mode := vU32("mode")
	card := vU64("card")
	maxDocs := vU64("maxDocs")
	d := vU64("d")
	vAssume(card < 1<<32)
	vAssume(maxDocs < 1<<32)
	vAssume(d < maxDocs)
	size, err := getChunkSize(mode, card, maxDocs)
	if err != nil {
		return
	}
	vAssert(size > 0, "positive")
	vAssert(d/size <= (maxDocs-1)/size, "chunk-in-table")
	vAssert(uint64(uint32(d)/uint32(size)) == d/size, "reader-writer-division")
}

// H09_layout: a file written by Persist decodes, with a reader written from the documented layout only,
// to the content that went in.
func H09_layout() {
	wide := -1
	if vParam("wide", 0) > 0 {
		wide = vChoice("wide", vParam("wide", 0)) // one number at a time is full width
	}
	docs, sp := vGenBatch(vStdCfg("", "d", 1+vChoice("nDocs", vParam("maxDocs", 2)), wide))
	mode := vChunkMode()
	var z ZapPlugin
	seg, _, err := z.newWithChunkMode(docs, mode)
	vAssert(err == nil, "build")
	path := vP("l.zap")
	vAssert(seg.(*SegmentBase).Persist(path) == nil, "persist")
	lCheckAgainstSpec(vFSBytes(path), sp, mode, "")
}

// H09_layout_merged: the same for a file written by Merge.
func H09_layout_merged() {
	n0 := 1 + vChoice("n0", 2)
	docs0, sp0 := vGenBatch(vMergeCfg("a", "a", n0, false, "post"))
	docs1, sp1 := vGenBatch(vMergeCfg("b", "b", 1, true, "post"))
	s0 := vBuildInput(docs0, DefaultChunkMode, false, "")
	s1 := vBuildInput(docs1, DefaultChunkMode, false, "")
	d0, b0 := vDropBitmap("drop0_", n0)
	want, _ := sMergeSpecs([]*sSpec{sp0, sp1}, [][]bool{b0, nil})
	var z ZapPlugin
	path := vP("lm.zap")
	_, _, err := z.Merge([]segment.Segment{s0, s1}, []*roaring.Bitmap{d0, nil}, path, nil, nil)
	vAssert(err == nil, "merge")
	lCheckAgainstSpec(vFSBytes(path), want, DefaultChunkMode, "m-")
}
