package zap

import (
	"encoding/binary"
	"fmt"

	index "github.com/blevesearch/bleve_index_api"
	segment "github.com/blevesearch/scorch_segment_api/v2"
)

func init() {
	vRegister("H20_refs", H20_refs)
	vRegister("H20_openfail", H20_openfail)
	vRegister("H20_lockset", H20_lockset)
	vRegister("H10_seq", H10_seq)
}

// H20_refs: every balanced AddRef/DecRef/Close sequence with reads in between: the mapping and the descriptor
// stay live while a reference is held and are released exactly once by the drop of the last one.
func H20_refs() {
	sb, _, sp := vSmallSegment()
	// second kind of segment: one with a synonym section (its lookups go through a lazily filled cache)
	var spSyn *sSynSpec
	if vBool("synSegment") {
		var z ZapPlugin
		sdocs, ssp := vGenSynBatchFixed()
		seg, _, err := z.newWithChunkMode(sdocs, DefaultChunkMode)
		vAssert(err == nil, "build-syn")
		sb, spSyn = seg.(*SegmentBase), ssp
	}
	path := vP("r.zap")
	vAssert(sb.Persist(path) == nil, "persist")
	var z ZapPlugin
	sI, err := z.Open(path)
	vAssert(err == nil, "open")
	s := sI.(*Segment)
	vAssert(vFSOpenHandles() == 1 && vFSLiveMappings() >= 1, "open-live")
	refs := 1
	maxOps := vParam("maxOps", 6)
	for i := 0; i < maxOps && refs > 0; i++ {
		switch vChoice(fmt.Sprint("op", i), 4) {
		case 0:
			s.AddRef()
			refs++
		case 1:
			err := s.DecRef()
			refs--
			vAssert(err == nil, "decref-nil")
		case 2:
			err := s.Close()
			refs--
			vAssert(err == nil, "close-nil")
		case 3:
			if spSyn != nil {
				sCheckThesauri(s, spSyn, nil, nil, "read-")
				id, err := s.DocID(1)
				vAssert(err == nil && string(id) == "s0", "read-docid")
				break
			}
			sCheckStored(s, sp, "read-")
			pl, err := mustDict(s, "f").PostingsList([]byte("a"), nil, nil)
			vAssert(err == nil && pl.Count() == 2, "read-postings")
			sCheckDocValues(s, sp, []int{1, 0}, "read-")
		}
		if refs > 0 {
			vAssert(vFSOpenHandles() == 1, "early-close")
			vAssert(vFSLiveMappings() >= 1, "early-unmap")
		} else {
			vAssert(vFSOpenHandles() == 0, "final-closed")
			vAssert(vFSLiveMappings() == 0, "final-unmapped")
			if n := vFSEvents("unmap "); n >= 0 {
				vAssert(n == 1, "unmap-once")
				vAssert(vFSEvents("close "+path) == 2, "close-once") // one close by Persist, one by the final release
			}
		}
	}
	// sequences that still hold references at the bound are released now (balanced)
	for refs > 0 {
		vAssert(s.DecRef() == nil, "tail-decref-nil")
		refs--
	}
	vAssert(vFSOpenHandles() == 0 && vFSLiveMappings() == 0, "tail-released")
	// closing an in-memory segment is harmless
	vAssert(sb.Close() == nil, "base-close")
}

// H20_lockset (reduction R1 for the schedule quantifier): the reference count and the release are only ever
// touched with Segment.m held, on every path of AddRef / DecRef / Close; then concurrent holders are equivalent
// to one of the sequential orders H20_refs explores. Natively (replay of a lockset counterexample) the same
// harness is a stress run of concurrent holders, which must leave the segment live and release it exactly once.
func H20_lockset() {
	sb, _, sp := vSmallSegment()
	path := vP("k.zap")
	vAssert(sb.Persist(path) == nil, "persist")
	var z ZapPlugin
	sI, err := z.Open(path)
	vAssert(err == nil, "open")
	s := sI.(*Segment)
	if vSymbolic() {
		vGuard(&s.refs, &s.m)
		// the release itself (unmap, close of the descriptor) happens inside the same critical section as
		// the decrement that found zero: the mapping and the file are only touched with the mutex held
		vGuard(&s.mm, &s.m)
		vGuard(&s.f, &s.m)
		refs := 1
		for i := 0; i < 4 && refs > 0; i++ {
			switch vChoice(fmt.Sprint("op", i), 3) {
			case 0:
				s.AddRef()
				refs++
			case 1:
				vAssert(s.DecRef() == nil, "decref")
				refs--
			case 2:
				vAssert(s.Close() == nil, "close")
				refs--
			}
		}
		return
	}
	// native stress: holders take and drop references concurrently while the opener keeps its own
	const workers, rounds = 8, 20000
	errs := make(chan error, workers)
	for w := 0; w < workers; w++ {
		go func(w int) {
			for i := 0; i < rounds; i++ {
				s.AddRef()
				var err error
				if (i+w)%2 == 0 {
					err = s.DecRef()
				} else {
					err = s.Close()
				}
				if err != nil {
					errs <- err
					return
				}
			}
			errs <- nil
		}(w)
	}
	for w := 0; w < workers; w++ {
		vAssert(<-errs == nil, "stress-release-error")
	}
	vAssert(vFSOpenHandles() == 1 && vFSLiveMappings() >= 1, "stress-still-live")
	sCheckStored(s, sp, "stress-read-")
	vAssert(s.Close() == nil, "stress-final-close")
	vAssert(vFSOpenHandles() == 0 && vFSLiveMappings() == 0, "stress-released")
	// the last references dropped by several holders at the same moment: exactly one of them releases,
	// every drop reports nil
	for round := 0; round < 2500; round++ {
		oI, err := z.Open(path)
		vAssert(err == nil, "stress-open")
		o := oI.(*Segment)
		o.AddRef()
		o.AddRef()
		res := make(chan error, 3)
		start := make(chan struct{})
		for h := 0; h < 3; h++ {
			go func(h int) {
				<-start
				if (h+round)%2 == 0 {
					res <- o.DecRef()
				} else {
					res <- o.Close()
				}
			}(h)
		}
		close(start)
		for h := 0; h < 3; h++ {
			vAssert(<-res == nil, "stress-final-drop-error")
		}
	}
	vAssert(vFSOpenHandles() == 0 && vFSLiveMappings() == 0, "stress-all-released")
}

func mustDict(s segment.Segment, f string) segment.TermDictionary {
	d, err := s.Dictionary(f)
	vAssert(err == nil && d != nil, "dict")
	return d
}

// H20_openfail: failure paths of Open release what they acquired.
func H20_openfail() {
	sb, _, _ := vSmallSegment()
	path := vP("o.zap")
	vAssert(sb.Persist(path) == nil, "persist")
	kind := vChoice("kind", 4)
	var z ZapPlugin
	if kind == 3 {
		// the unmap of the final release fails: the error is reported and the descriptor is closed all the same
		o, err := z.Open(path)
		vAssert(err == nil, "open")
		if vSymbolic() {
			vFSFailOpen("unmap")
		} else {
			// natively: unmap through a copy of the mapping first, so that the segment's own unmap fails
			cp := o.(*Segment).mm
			vAssert(cp.Unmap() == nil, "pre-unmap")
		}
		err = o.Close()
		vAssert(err != nil, "unmap-error-reported")
		vAssert(vFSOpenHandles() == 0, "unmap-failed-descriptor-closed")
		return
	}
	if kind == 2 {
		// a failure after the file has been opened and mapped: a pre-sections (footer version 15) file with one
		// field and one document whose doc-value index starts with an overflowing uvarint - Open gets as far
		// as loading the doc-value readers and fails there
		var b []byte
		b = append(b, 0, 1, 'f') // field record at 0: dictionary location 0, name length 1, "f"
		dvOffset := uint64(len(b))
		for i := 0; i < binary.MaxVarintLen64; i++ {
			b = append(b, 0xff)
		}
		fieldsIndexOffset := uint64(len(b))
		b = binary.BigEndian.AppendUint64(b, 0) // fields index: address of field 0's record
		b = binary.BigEndian.AppendUint64(b, 1) // numDocs
		b = binary.BigEndian.AppendUint64(b, 0) // storedIndexOffset
		b = binary.BigEndian.AppendUint64(b, fieldsIndexOffset)
		b = binary.BigEndian.AppendUint64(b, dvOffset)
		b = binary.BigEndian.AppendUint32(b, 1024) // chunkMode
		b = binary.BigEndian.AppendUint32(b, 15)   // version
		b = binary.BigEndian.AppendUint32(b, 0)    // crc
		bad := vP("legacy.zap")
		vFSPut(bad, b)
		_, err := z.Open(bad)
		vAssert(err != nil, "load-fails")
		vAssert(vFSOpenHandles() == 0, "failed-load-closed")
		vAssert(vFSLiveMappings() == 0, "failed-load-unmapped")
		return
	}
	if !vSymbolic() {
		return // the open / mmap failures exist only in the model
	}
	kinds := []string{"open", "mmap"}
	vFSFailOpen(kinds[kind])
	_, err := z.Open(path)
	vAssert(err != nil, "open-fails")
	vAssert(vFSOpenHandles() == 0, "failed-open-closed")
	vAssert(vFSLiveMappings() == 0, "failed-open-unmapped")
}

// H10_seq: build B, then A, then B again on the reused (pooled) builder: the second B answers exactly as its own
// batch dictates - no trace of A (more fields, doc values, synonyms) - also after a build of A that fails.
func H10_seq() {
	var z ZapPlugin
	saved := ValidateDocFields
	defer func() { ValidateDocFields = saved }()
	buildB := func(tag string) {
		docs, sp := vGenBatch(gCfg{prefix: "b", idBase: "b", nDocs: vChoice("bDocs", 1+vParam("bMax", 2)), wide: -1, noFx: true,
			fields: []gField{
				// (bLocs > 1: B has more locations on one term than A has in total - the builder's backing arrays grow)
				{name: "f", terms: []string{"a"}, tv: true, maxLocs: vParam("bLocs", 1), fixLocs: vParam("bLocs", 1) > 1, store: true},
				{name: "g", terms: []string{"c"}},
				{name: "h", terms: []string{"e"}, dv: true, always: true, allTerm: true, fixFreq: true},
			}})
		seg, _, err := z.newWithChunkMode(docs, DefaultChunkMode)
		vAssert(err == nil, tag+"build")
		sCheckStored(seg, sp, tag)
		sCheckPostings(seg, sp, tag)
		order := []int{}
		for d := range docs {
			order = append(order, d)
		}
		sCheckDocValues(seg, sp, order, tag)
		// no thesaurus leaks in
		ts := seg.(segment.ThesaurusSegment)
		for _, th := range []string{"t1", "f", "g"} {
			thes, err := ts.Thesaurus(th)
			vAssert(err == nil && thes != nil, tag+"thes")
			e, err := thes.AutomatonIterator(nil, nil, nil).Next()
			vAssert(err == nil && e == nil, tag+"thes-empty")
		}
	}
	if vBool("freshFirst") {
		buildB("1-")
	}
	// A: larger, with doc values on the same field names, extra fields, optionally synonyms
	aDocs, _ := vGenBatch(gCfg{prefix: "a", idBase: "a", nDocs: 1 + vChoice("aDocs", vParam("aMax", 2)), wide: -1, idDV: true, noFx: true,
		fields: []gField{
			{name: "f", terms: []string{"a", "b"}, tv: true, maxLocs: 1, dv: true, store: true, always: true},
			{name: "g", terms: []string{"c"}, dv: true, always: true, allTerm: true},
			{name: "h", terms: []string{"d"}, dv: true, store: true, always: true, allTerm: true, shape: true},
		}})
	if vBool("aSyn") {
		aDocs = append(aDocs, &vSynDoc{vDoc{id: "as", fields: []index.Field{vIDField("as"), &vSynField{name: "t1", terms: []string{"x"}, syns: [][]string{{"p", "q"}}}}}})
	}
	failA := vBool("aFails")
	if failA {
		ValidateDocFields = func(f index.Field) error {
			if f.Name() == "h" {
				return errVInjected
			}
			return nil
		}
	}
	_, _, err := z.newWithChunkMode(aDocs, DefaultChunkMode)
	vAssert((err != nil) == failA, "a-build")
	ValidateDocFields = saved
	buildB("2-")
}
