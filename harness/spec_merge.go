package zap

import (
	"sort"

	"github.com/RoaringBitmap/roaring/v2"
)

const sDropped = ^uint64(0)

// sMergeSpecs computes the reference semantics of merging the given batches with the given deletions.
func sMergeSpecs(specs []*sSpec, drops [][]bool) (*sSpec, [][]uint64) {
	out := &sSpec{}
	newNums := make([][]uint64, len(specs))
	next := uint64(0)
	nameSet := map[string]bool{}
	var names []string
	dvSet := map[string]bool{}
	for si, sp := range specs {
		newNums[si] = make([]uint64, len(sp.docs))
		for d := range sp.docs {
			if drops[si] != nil && drops[si][d] {
				newNums[si][d] = sDropped
				continue
			}
			newNums[si][d] = next
			next++
			out.docs = append(out.docs, sp.docs[d])
		}
		for _, f := range sp.fields {
			if f != "_id" && !nameSet[f] {
				nameSet[f] = true
				names = append(names, f)
			}
		}
		for _, f := range sp.dvFields {
			if !dvSet[f] {
				dvSet[f] = true
				out.dvFields = append(out.dvFields, f)
			}
		}
	}
	sort.Strings(names)
	sort.Strings(out.dvFields)
	out.fields = append([]string{"_id"}, names...)
	for si, sp := range specs {
		for _, fp := range sp.posts {
			ofp := out.fieldPost(fp.field)
			for _, tp := range fp.terms {
				otp := ofp.termPost(tp.term)
				for _, h := range tp.hits {
					nn := newNums[si][h.doc]
					if nn == sDropped {
						continue
					}
					nh := h
					nh.doc = nn
					otp.hits = append(otp.hits, nh)
				}
			}
		}
	}
	return out, newNums
}

// vDropBitmap draws a deletion set for n documents: nil, or a bitmap of symbolic membership.
func vDropBitmap(name string, n int) (*roaring.Bitmap, []bool) {
	if vParam("noDrops", 0) == 1 || vBool(name+"nil") {
		return nil, nil
	}
	bm := roaring.New()
	bits := make([]bool, n)
	for d := 0; d < n; d++ {
		if vBool(name + string(rune('0'+d))) {
			bm.Add(uint32(d))
			bits[d] = true
		}
	}
	return bm, bits
}
