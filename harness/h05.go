package zap

import (
	"fmt"

	"github.com/RoaringBitmap/roaring/v2"
	index "github.com/blevesearch/bleve_index_api"
	segment "github.com/blevesearch/scorch_segment_api/v2"
)

func init() {
	vRegister("H05_merge", H05_merge)
	vRegister("H06_merge", H06_merge)
}

// vBuildInput builds one merge input from a generated batch: in memory, or persisted and re-opened.
func vBuildInput(docs []index.Document, mode uint32, reopen bool, path string) segment.Segment {
	var z ZapPlugin
	seg, _, err := z.newWithChunkMode(docs, mode)
	vAssert(err == nil, "input-build")
	if vParam("gen2", 0) == 1 && len(docs) > 0 && vBool("gen2"+path) {
		// the input is itself the result of an earlier merge (single-hit entries, byte-copied details)
		_, _, err := z.Merge([]segment.Segment{seg}, []*roaring.Bitmap{nil}, path+".g2", nil, nil)
		vAssert(err == nil, "input-premerge")
		o, err := z.Open(path + ".g2")
		vAssert(err == nil, "input-premerge-open")
		return o
	}
	if !reopen {
		return seg
	}
	vAssert(seg.(*SegmentBase).Persist(path) == nil, "input-persist")
	o, err := z.Open(path)
	vAssert(err == nil, "input-open")
	return o
}

// vMergeCfg: focus "stored" (stored values vary, postings fixed) or "post" (postings vary, nothing stored).
func vMergeCfg(prefix, idBase string, nDocs int, second bool, focus string) gCfg {
	var fields []gField
	if focus == "stored" {
		fields = []gField{{name: "f", terms: []string{"a"}, allTerm: true, fixFreq: true, store: true, multi: vParam("maxOcc", 1) > 1, maxOcc: vParam("maxOcc", 1)}}
		if vParam("fieldVar", 0) == 1 {
			// every input has its own field list: f alone, f and g, or f and h (lists that agree on a prefix, or
			// that are equal for some inputs and different for one in between, decide byte copy versus re-encode)
			switch vChoice(prefix+"xf", 3) {
			case 1:
				fields = append(fields, gField{name: "g", terms: []string{"a"}, allTerm: true, fixFreq: true, store: true})
			case 2:
				fields = append(fields, gField{name: "h", terms: []string{"a"}, allTerm: true, fixFreq: true, store: true})
			}
		} else if second {
			fields = append(fields, gField{name: "g", terms: []string{"a"}, allTerm: true, fixFreq: true, store: true})
		}
		if vParam("always", 0) == 1 {
			for i := range fields {
				fields[i].always = true
			}
		}
		if vParam("upperNames", 0) == 1 {
			// field names that sort before "_id" (upper-case letters, digits)
			for i := range fields {
				fields[i].name = []string{"A", "0b"}[i%2]
			}
		}
		return gCfg{prefix: prefix, idBase: idBase, nDocs: nDocs, wide: -1, maxAP: 1, symTyp: vParam("symTyp", 1) == 1, fixAP: vParam("fixAP", 0) == 1, storeAll: vParam("storeAll", 0) == 1, fields: fields}
	}
	fields = []gField{{name: "f", terms: []string{"", "a"}, tv: true, maxLocs: 1, dv: true}}
	if vParam("lite", 0) == 1 {
		fields[0].terms = []string{""}
	}
	if vParam("comp", 0) == 1 {
		// a composite field in every input: its locations name the (always present) field f, whose id differs
		// between the inputs and the merged segment when the second input has the extra field
		fields[0].always = true
		// (two locations per hit: the first names the source field f, the second the composite field itself)
		fields = append(fields, gField{name: "c", terms: []string{"b"}, tv: true, maxLocs: 2, fixLocs: true, comp: true, locFields: []string{"f", ""}, noTVOpt: true})
		if second {
			fields = append(fields, gField{name: "a0", terms: []string{"a"}, dv: true})
		}
		return gCfg{prefix: prefix, idBase: idBase, nDocs: nDocs, wide: -1, noFx: true, fields: fields}
	}
	if second {
		fields = append(fields, gField{name: "g", terms: []string{"a"}, dv: true, shape: true}) // (a geo-shape field: its shape is an extra doc-value term)
	}
	return gCfg{prefix: prefix, idBase: idBase, nDocs: nDocs, wide: -1, noFx: true, fields: fields}
}

func vMergeTwo(focus string) {
	if vParam("dvChunk", 0) > 0 {
		// small doc-value chunks (the legacy chunk mode, 1024 by default): chunks without data for a field arise
		// with two or three documents
		saved := LegacyChunkMode
		defer func() { LegacyChunkMode = saved }()
		LegacyChunkMode = uint32(1 + vChoice("dvChunk", vParam("dvChunk", 0)))
	}
	maxDocs := vParam("maxDocs", 1)
	nIn := vParam("nInputs", 2)
	prefixes := []string{"a", "b", "c"}
	var segs []segment.Segment
	var drops []*roaring.Bitmap
	var specs []*sSpec
	var bits [][]bool
	r0 := vBool("reopen0")
	opened := 0
	for i := 0; i < nIn; i++ {
		md := maxDocs
		if i > 0 {
			md = vParam("maxDocs1", maxDocs) // (later inputs may be kept smaller than the first)
		}
		n := vChoice(fmt.Sprint("n", i), md+1)
		// the second input may carry an extra field, so that field lists differ
		docs, sp := vGenBatch(vMergeCfg(prefixes[i], prefixes[i], n, i == 1, focus))
		ri := r0
		if i > 0 && vParam("tieReopen", 0) == 0 {
			ri = vBool(fmt.Sprint("reopen", i))
		}
		sg := vBuildInput(docs, DefaultChunkMode, ri, vP(fmt.Sprint("in", i, ".zap")))
		opened += vOpenCount(sg)
		d, b := vDropBitmap(fmt.Sprint("drop", i, "_"), n)
		segs = append(segs, sg)
		drops = append(drops, d)
		specs = append(specs, sp)
		bits = append(bits, b)
	}
	want, wantNums := sMergeSpecs(specs, bits)
	var z ZapPlugin
	path := vP("merged.zap")
	if len(want.docs) == 0 {
		if vSkipKnown("C05-nothing-survives") {
			// recorded finding: the renumbering lists are missing and the result cannot be queried. What does
			// hold in this region stays checked: no error, the reported size, every handle closed, Count 0.
			_, size, err := z.Merge(segs, drops, path, nil, nil)
			vAssert(err == nil, "zero-merge-err")
			vAssert(size == uint64(len(vFSBytes(path))), "zero-size")
			vAssert(vFSOpenHandles() == opened, "zero-merge-closed")
			vAssert(len(segs) == nIn && segs[0] != nil, "inputs-alive")
			m, err := z.Open(path)
			vAssert(err == nil, "zero-open")
			vAssert(m.Count() == 0, "zero-count")
			vAssert(m.Close() == nil, "zero-close")
			vAssert(vFSOpenHandles() == opened, "zero-closed-again")
			return
		}
	}
	nums, size, err := z.Merge(segs, drops, path, nil, nil)
	vAssert(err == nil, "merge-err")
	vAssert(len(nums) == nIn, "nums-len")
	for si := range nums {
		vAssert(len(nums[si]) == len(wantNums[si]), fmt.Sprint("nums-len-", si))
		for d := range nums[si] {
			vAssert(nums[si][d] == wantNums[si][d], "renumbering")
		}
	}
	file := vFSBytes(path)
	vAssert(size == uint64(len(file)), "size")
	vAssert(vFSOpenHandles() == opened, "merge-closed")
	vAssert(len(segs) == nIn && segs[0] != nil, "inputs-alive") // (keeps the opened inputs reachable until the handle count was taken)
	m, err := z.Open(path)
	vAssert(err == nil, "open-merged")
	sCheckStored(m, want, "m-")
	sCheckDocNumbers(m, want, "m-")
	if focus == "post" {
		sCheckPostings(m, want, "m-")
		order := []int{}
		for d := range want.docs {
			order = append(order, d)
		}
		sCheckDocValuesX(m, want, order, "m-", false)
	}
}

// H05_merge: renumbering, Count, Fields, stored data, DocID, DocNumbers, size of the merged file.
func H05_merge() { vMergeTwo("stored") }

// H06_merge: postings and doc values of the merged segment equal those of the survivors.
func H06_merge() { vMergeTwo("post") }

func vOpenCount(s segment.Segment) int {
	if _, ok := s.(*Segment); ok {
		return 1
	}
	return 0
}
