package zap

// Native side of the modelled environment (used only when a harness is
// replayed on the real build).

func vNativeReset() {}
