package zap

// Native side of the modelled environment, used only when a harness is replayed on the real build:
// the virtual paths live in a fresh temporary directory, handle/mapping counts come from /proc.

import (
	"os"
	"path/filepath"
	"strings"
	"syscall"
)

var vNativeDir string

// vNativeResetHooks reset further native state before every replayed case (e.g. the stand-in engine's ledger).
var vNativeResetHooks []func()

func vNativeReset() {
	for _, h := range vNativeResetHooks {
		h()
	}
	// undo a lowered file-size limit of a previous case
	var rl syscall.Rlimit
	if syscall.Getrlimit(syscall.RLIMIT_FSIZE, &rl) == nil && rl.Cur != rl.Max {
		rl.Cur = rl.Max
		_ = syscall.Setrlimit(syscall.RLIMIT_FSIZE, &rl)
	}
	if vNativeDir != "" {
		_ = os.RemoveAll(vNativeDir)
	}
	vNativeDir, _ = os.MkdirTemp("", "zapx-verif-replay-")
}

// vP maps a virtual file name to the path handed to the code under test.
func vP(name string) string {
	if vNativeDir == "" {
		vNativeReset()
	}
	return filepath.Join(vNativeDir, name)
}

func vFSExists(path string) bool {
	_, err := os.Stat(path)
	return err == nil
}

func vFSBytes(path string) []byte {
	b, _ := os.ReadFile(path)
	return b
}

func vFSPut(path string, b []byte) { _ = os.WriteFile(path, b, 0600) }

// vFSOpenHandles counts this process's descriptors that point into the replay directory.
func vFSOpenHandles() int {
	n := 0
	ents, _ := os.ReadDir("/proc/self/fd")
	for _, e := range ents {
		if t, err := os.Readlink("/proc/self/fd/" + e.Name()); err == nil && strings.HasPrefix(t, vNativeDir+"/") {
			n++
		}
	}
	return n
}

// vFSLiveMappings counts memory mappings of files in the replay directory.
func vFSLiveMappings() int {
	b, _ := os.ReadFile("/proc/self/maps")
	n := 0
	for _, l := range strings.Split(string(b), "\n") {
		if strings.Contains(l, vNativeDir+"/") {
			n++
		}
	}
	return n
}

// vFSEvents: the event ledger exists only in the model; natively unknown (-1).
func vFSEvents(prefix string) int { return -1 }

// vFSFailWrites arms the write fault recorded in the replay inputs: the file-size limit is lowered to the
// number of bytes the model accepted, so that the write crossing it fails (EFBIG) at the same byte.
func vFSFailWrites(path string) {
	if vIn("fault.armed") == 0 {
		return
	}
	_ = path
	rl := syscall.Rlimit{}
	if syscall.Getrlimit(syscall.RLIMIT_FSIZE, &rl) == nil {
		rl.Cur = vIn("fault.offset")
		_ = syscall.Setrlimit(syscall.RLIMIT_FSIZE, &rl)
	}
}

// vFSDisarm ends fault injection (the operation under test is over).
func vFSDisarm() {
	var rl syscall.Rlimit
	if syscall.Getrlimit(syscall.RLIMIT_FSIZE, &rl) == nil && rl.Cur != rl.Max {
		rl.Cur = rl.Max
		_ = syscall.Setrlimit(syscall.RLIMIT_FSIZE, &rl)
	}
}

func vFSFaulted() bool { return vIn("fault.armed") != 0 }

func vFSFailOpen(kind string) {}

// ---- cancellation: under the engine the channel closes at a symbolic poll; natively the verif-tagged poll
// hook of the repository closes it at the same poll index (cancel.poll), 0 = closed before the call.

var vCancel struct {
	ch     chan struct{}
	closed bool
	polls  int
}

func vCloseChan(counter *int) chan struct{} {
	vCancel.ch = make(chan struct{})
	vCancel.closed = false
	vCancel.polls = 0
	VerifPollHook = func(ch chan struct{}) {
		if ch != vCancel.ch {
			return
		}
		if vIn("cancel.armed") != 0 && !vCancel.closed && uint64(vCancel.polls) == vIn("cancel.poll") {
			close(vCancel.ch)
			vCancel.closed = true
		}
		vCancel.polls++
	}
	return vCancel.ch
}

// vCancelTick is called by the harness's stats reporter after each reported write (informational).
func vCancelTick(writes int) {}

func vCancelPolls() int { return vCancel.polls }
