package zap

// Native side of the modelled environment (used only when a harness is
// replayed on the real build).

func vNativeReset() {}

// ---- virtual file system (engine) / real temporary directory (native)

func vFSExists(path string) bool         { panic("vFS: native implementation pending") }
func vFSBytes(path string) []byte        { panic("vFS: native implementation pending") }
func vFSPut(path string, b []byte)       { panic("vFS: native implementation pending") }
func vFSOpenHandles() int                { panic("vFS: native implementation pending") }
func vFSLiveMappings() int               { panic("vFS: native implementation pending") }
func vFSEvents(prefix string) int        { panic("vFS: native implementation pending") }
func vFSFailWrites(path string)          { panic("vFS: native implementation pending") }
func vFSFaulted() bool                   { panic("vFS: native implementation pending") }
func vFSFailOpen(kind string)            { panic("vFS: native implementation pending") }
