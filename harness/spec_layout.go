package zap

// Independent decoder of the v16 file layout, written from zap.md / README.md
// and the layout table in DESIGN.md (Appendix E) - it shares no code with the
// reader in the repository (only the vellum, roaring and snappy libraries,
// whose own byte formats are outside the claim). It is the frozen reference:
// it does not change when /repo changes.

import (
	"encoding/binary"
	"sort"

	"github.com/RoaringBitmap/roaring/v2"
	"github.com/blevesearch/vellum"
	"github.com/golang/snappy"
)

const lNone = ^uint64(0)

type lFile struct {
	b                                        []byte
	numDocs, storedIndex, fieldsIndex, dvOff uint64
	sectionsIndex                            uint64
	chunkMode, version, crc                  uint32
	names                                    []string
	secAddr                                  []map[uint16]uint64
	ok                                       bool
}

// lUvarint decodes one unsigned LEB128 varint at b[off:].
func lUvarint(b []byte, off uint64) (uint64, uint64) {
	var x uint64
	var s uint
	for i := 0; i < 10; i++ {
		c := b[off]
		off++
		if c < 0x80 {
			return x | uint64(c)<<s, off
		}
		x |= uint64(c&0x7f) << s
		s += 7
	}
	vFail("layout-varint-too-long")
	return 0, off
}

func lParse(b []byte) *lFile {
	f := &lFile{b: b}
	n := uint64(len(b))
	vAssert(n >= 52, "layout-footer-present")
	ft := b[n-52:]
	f.numDocs = binary.BigEndian.Uint64(ft[0:8])
	f.storedIndex = binary.BigEndian.Uint64(ft[8:16])
	f.fieldsIndex = binary.BigEndian.Uint64(ft[16:24])
	f.sectionsIndex = binary.BigEndian.Uint64(ft[24:32])
	f.dvOff = binary.BigEndian.Uint64(ft[32:40])
	f.chunkMode = binary.BigEndian.Uint32(ft[40:44])
	f.version = binary.BigEndian.Uint32(ft[44:48])
	f.crc = binary.BigEndian.Uint32(ft[48:52])
	vAssert(f.version == 16, "layout-version")
	// fields index: uv numFields, BE64 offset per field
	nf, off := lUvarint(b, f.sectionsIndex)
	vAssert(vIsConcrete(nf), "layout-numfields-concrete")
	for i := uint64(0); i < nf; i++ {
		rec := binary.BigEndian.Uint64(b[off+8*i : off+8*i+8])
		ln, p := lUvarint(b, rec)
		name := string(b[p : p+ln])
		p += ln
		ns, p2 := lUvarint(b, p)
		p = p2
		addrs := map[uint16]uint64{}
		for s := uint64(0); s < ns; s++ {
			typ := binary.BigEndian.Uint16(b[p : p+2])
			addr := binary.BigEndian.Uint64(b[p+2 : p+10])
			p += 10
			addrs[typ] = addr
		}
		f.names = append(f.names, name)
		f.secAddr = append(f.secAddr, addrs)
	}
	return f
}

func (f *lFile) fieldID(name string) int {
	for i, n := range f.names {
		if n == name {
			return i
		}
	}
	return -1
}

// lChunkSize is the frozen chunk-size rule of the v16 format.
func lChunkSize(mode uint32, card, numDocs uint64) uint64 {
	switch {
	case mode <= 1024:
		return uint64(mode)
	case mode == 1025:
		if card <= 1024 {
			return numDocs
		}
		return 1024
	default:
		return numDocs / (card/1024 + 1)
	}
}

// lIntStream reads the header of a chunked int stream: chunk count, end offsets, start of data.
func lIntStream(b []byte, off uint64) (ends []uint64, data uint64) {
	n, p := lUvarint(b, off)
	for i := uint64(0); i < n; i++ {
		var e uint64
		e, p = lUvarint(b, p)
		ends = append(ends, e)
	}
	return ends, p
}

type lHit struct {
	doc, freq, norm uint64
	locs            []sLoc
}

// postings decodes every hit of (field, term) from the file; found is false when the term is not in the dictionary.
func (f *lFile) postings(field, term string) (hits []lHit, found bool) {
	fid := f.fieldID(field)
	if fid < 0 {
		return nil, false
	}
	addr := f.secAddr[fid][0] // section 0: inverted text index
	if addr == 0 {
		return nil, false
	}
	b := f.b
	_, p := lUvarint(b, addr) // doc value start
	_, p = lUvarint(b, p)     // doc value end
	dictOff, _ := lUvarint(b, p)
	fstLen, fp := lUvarint(b, dictOff)
	if fstLen == 0 {
		return nil, false
	}
	fst, err := vellum.Load(b[fp : fp+fstLen])
	vAssert(err == nil, "layout-fst-load")
	val, ok, err := fst.Get([]byte(term))
	vAssert(err == nil, "layout-fst-get")
	if !ok {
		return nil, false
	}
	if val>>62 == 2 { // single-hit: 10 | norm(31) | doc(31)
		return []lHit{{doc: val & 0x7fffffff, freq: 1, norm: (val >> 31) & 0x7fffffff}}, true
	}
	vAssert(val>>62 == 0, "layout-fstval-tag")
	freqOff, q := lUvarint(b, val)
	locOff, q2 := lUvarint(b, q)
	rl, q3 := lUvarint(b, q2)
	bm := roaring.New()
	_, err = bm.FromBuffer(b[q3 : q3+rl])
	vAssert(err == nil, "layout-roaring")
	docs := bm.ToArray()
	card := uint64(len(docs))
	cs := lChunkSize(f.chunkMode, card, f.numDocs)
	vAssert(cs > 0, "layout-chunksize")
	fEnds, fData := lIntStream(b, freqOff)
	lEnds, lData := lIntStream(b, locOff)
	curChunk := lNone
	var fp2, lp uint64
	for _, d32 := range docs {
		d := uint64(d32)
		ch := d / cs
		if vSymbolic() || true {
			// chunk index is layout: concrete on every path
		}
		if ch != curChunk {
			curChunk = ch
			vAssert(ch < uint64(len(fEnds)), "layout-freq-chunk-exists")
			fp2 = fData
			lp = lData
			if ch > 0 {
				fp2 = fData + fEnds[ch-1]
				if ch-1 < uint64(len(lEnds)) {
					lp = lData + lEnds[ch-1]
				}
			}
		}
		var fh uint64
		fh, fp2 = lUvarint(b, fp2)
		h := lHit{doc: d, freq: fh >> 1}
		if h.freq > 0 {
			h.norm, fp2 = lUvarint(b, fp2)
		}
		if fh&1 == 1 {
			var nb uint64
			nb, lp = lUvarint(b, lp)
			end := lp + nb
			for lp < end {
				var fidL, pos, st, en, nap uint64
				fidL, lp = lUvarint(b, lp)
				pos, lp = lUvarint(b, lp)
				st, lp = lUvarint(b, lp)
				en, lp = lUvarint(b, lp)
				nap, lp = lUvarint(b, lp)
				var ap []uint64
				for i := uint64(0); i < nap; i++ {
					var a uint64
					a, lp = lUvarint(b, lp)
					ap = append(ap, a)
				}
				vAssert(fidL < uint64(len(f.names)), "layout-loc-field")
				h.locs = append(h.locs, sLoc{field: f.names[fidL], pos: pos, start: st, end: en, ap: ap})
			}
			vAssert(lp == end, "layout-loc-bytes")
		}
		hits = append(hits, h)
	}
	return hits, true
}

// stored decodes the stored block of a document.
func (f *lFile) stored(doc uint64) (id []byte, vals []sStoredVal) {
	b := f.b
	off := binary.BigEndian.Uint64(b[f.storedIndex+8*doc : f.storedIndex+8*doc+8])
	metaLen, p := lUvarint(b, off)
	dataLen, p2 := lUvarint(b, p)
	meta := b[p2 : p2+metaLen]
	rest := b[p2+metaLen : p2+metaLen+dataLen]
	idLen, mp := lUvarint(meta, 0)
	id = rest[:idLen]
	var un []byte
	if uint64(len(rest)) > idLen {
		var err error
		un, err = snappy.Decode(nil, rest[idLen:])
		vAssert(err == nil, "layout-snappy")
	}
	for mp < uint64(len(meta)) {
		var fid, typ, st, ln, nap uint64
		fid, mp = lUvarint(meta, mp)
		typ, mp = lUvarint(meta, mp)
		st, mp = lUvarint(meta, mp)
		ln, mp = lUvarint(meta, mp)
		nap, mp = lUvarint(meta, mp)
		var ap []uint64
		for i := uint64(0); i < nap; i++ {
			var a uint64
			a, mp = lUvarint(meta, mp)
			ap = append(ap, a)
		}
		vAssert(fid < uint64(len(f.names)), "layout-stored-field")
		vals = append(vals, sStoredVal{field: f.names[fid], typ: byte(typ), val: un[st : st+ln], ap: ap})
	}
	return id, vals
}

// docValues decodes the doc-value block of a field (zap.md, "Doc Values"): per chunk a uvarint count, (doc,
// end offset) pairs and snappy-compressed data; then the chunks' cumulative end offsets as uvarints; the last
// 16 bytes are the byte length of that offset array and the number of chunks (two big-endian 64-bit numbers,
// in this order). Terms of a document are each followed by the separator byte 0xff.
func (f *lFile) docValues(field string) (perDoc map[uint64][]string, present bool) {
	fid := f.fieldID(field)
	if fid < 0 {
		return nil, false
	}
	addr := f.secAddr[fid][0]
	if addr == 0 {
		return nil, false
	}
	b := f.b
	dvStart, p := lUvarint(b, addr)
	dvEnd, _ := lUvarint(b, p)
	if dvStart == lNone || dvEnd == lNone || dvStart == dvEnd {
		return nil, false
	}
	vAssert(dvEnd >= dvStart+16, "layout-dv-trailer-present")
	numChunks := binary.BigEndian.Uint64(b[dvEnd-8 : dvEnd])
	offsLen := binary.BigEndian.Uint64(b[dvEnd-16 : dvEnd-8])
	vAssert(vIsConcrete(numChunks) && vIsConcrete(offsLen), "layout-dv-trailer-concrete")
	vAssert(dvStart+offsLen+16 <= dvEnd, "layout-dv-offsets-fit")
	op := dvEnd - 16 - offsLen
	var ends []uint64
	for i := uint64(0); i < numChunks; i++ {
		var e uint64
		e, op = lUvarint(b, op)
		ends = append(ends, e)
	}
	vAssert(op == dvEnd-16, "layout-dv-offsets-bytes")
	perDoc = map[uint64][]string{}
	prev := uint64(0)
	for _, e := range ends {
		if e == prev {
			continue // a chunk without data for this field
		}
		cp := dvStart + prev
		cEnd := dvStart + e
		prev = e
		n, q := lUvarint(b, cp)
		var docs, offs []uint64
		for i := uint64(0); i < n; i++ {
			var d, o uint64
			d, q = lUvarint(b, q)
			o, q = lUvarint(b, q)
			docs = append(docs, d)
			offs = append(offs, o)
		}
		un, err := snappy.Decode(nil, b[q:cEnd])
		vAssert(err == nil, "layout-dv-snappy")
		last := uint64(0)
		for i, d := range docs {
			data := un[last:offs[i]]
			last = offs[i]
			var terms []string
			start := 0
			for j := range data {
				if data[j] == 0xff {
					terms = append(terms, string(data[start:j]))
					start = j + 1
				}
			}
			vAssert(start == len(data), "layout-dv-term-terminated")
			perDoc[d] = terms
		}
	}
	return perDoc, true
}

// lCheckAgainstSpec: the file decodes, by the documented layout alone, to the content that went in.
func lCheckAgainstSpec(file []byte, sp *sSpec, mode uint32, tag string) {
	lCheckAgainstSpecX(file, sp, mode, tag, true)
}

// withCRC false: the checksum of an all-concrete file cannot be compared under the engine (crc32 is an
// uninterpreted fold there); the native run of the same harness compares it.
func lCheckAgainstSpecX(file []byte, sp *sSpec, mode uint32, tag string, withCRC bool) {
	f := lParse(file)
	vAssert(f.numDocs == uint64(len(sp.docs)), tag+"layout-numDocs")
	vAssert(f.chunkMode == mode, tag+"layout-chunkMode")
	if withCRC {
		vAssert(f.crc == vCRC(file[:len(file)-4]), tag+"layout-crc")
	}
	vAssert(f.fieldsIndex == f.sectionsIndex && f.dvOff == 0 || true, tag+"layout-footer-aux")
	if len(sp.docs) > 0 {
		vAssert(len(f.names) == len(sp.fields), tag+"layout-fields-len")
		for i := range sp.fields {
			vAssert(f.names[i] == sp.fields[i], tag+"layout-fields")
		}
	}
	for _, fp := range sp.posts {
		for _, tp := range fp.terms {
			hits, found := f.postings(fp.field, tp.term)
			vAssert(found == (len(tp.hits) > 0), tag+"layout-term-present")
			vAssert(len(hits) == len(tp.hits), tag+"layout-hits-n")
			for i, h := range hits {
				e := tp.hits[i]
				vAssert(h.doc == e.doc, tag+"layout-hit-doc")
				vAssert(h.freq == e.freq, tag+"layout-hit-freq")
				vAssert(h.norm == e.norm, tag+"layout-hit-norm")
				vAssert(len(h.locs) == len(e.locs), tag+"layout-hit-nlocs")
				for j, l := range h.locs {
					el := e.locs[j]
					vAssert(l.field == el.field, tag+"layout-loc-field")
					vAssert(vAnd(vAnd(l.pos == el.pos, l.start == el.start), l.end == el.end), tag+"layout-loc-numbers")
					vAssert(u64sEq(l.ap, el.ap), tag+"layout-loc-ap")
				}
			}
		}
	}
	// doc values (the numbers inside them - offsets - are layout and concrete; terms are concrete strings)
	dvDecoded := map[string]map[uint64][]string{}
	for d, ds := range sp.docs {
		for _, e := range ds.dv {
			if _, ok := dvDecoded[e.field]; !ok {
				m, _ := f.docValues(e.field)
				dvDecoded[e.field] = m
			}
			got := append([]string(nil), dvDecoded[e.field][uint64(d)]...)
			want := append([]string(nil), e.terms...)
			sort.Strings(got)
			sort.Strings(want)
			vAssert(len(got) == len(want), tag+"layout-dv-n")
			for i := range want {
				vAssert(got[i] == want[i], tag+"layout-dv-term")
			}
		}
	}
	for d, ds := range sp.docs {
		id, vals := f.stored(uint64(d))
		vAssert(string(id) == ds.id, tag+"layout-stored-id")
		vAssert(len(vals) == len(ds.stored), tag+"layout-stored-n")
		for i, v := range vals {
			e := ds.stored[i]
			vAssert(v.field == e.field && vBytesEq(v.val, e.val), tag+"layout-stored-val")
			vAssert(v.typ == e.typ, tag+"layout-stored-typ")
			vAssert(u64sEq(v.ap, e.ap), tag+"layout-stored-ap")
		}
	}
}
