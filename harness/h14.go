//go:build vectors
// +build vectors

//zsx:vectors-only

package zap

import (
	"fmt"
	"sort"

	"github.com/RoaringBitmap/roaring/v2"
	index "github.com/blevesearch/bleve_index_api"
	faiss "github.com/blevesearch/go-faiss"
	segment "github.com/blevesearch/scorch_segment_api/v2"
)

func init() {
	vRegister("H14_search", H14_search)
	vRegister("H15_vecmerge", H15_vecmerge)
	vRegister("H16_history", H16_history)
	vRegister("H19_faults", H19_faults)
	vRegister("H16_recheck", H16_recheck)
	vRegister("H18_vec", H18_vec)
	vRegister("H19_nth", H19_nth)
	vRegister("H14_large", H14_large)
	vRegister("H16_fields", H16_fields)
	vRegister("H16_lockset", H16_lockset)
	vRegister("H14_metrics", H14_metrics)
	vRegister("H10_vec", H10_vec)
	vNativeResetHooks = append(vNativeResetHooks, faiss.VerifReset)
}

type vVecField struct {
	name string
	vec  []float32
	sim  string
}

func (s *vVecField) Name() string                                     { return s.name }
func (s *vVecField) Value() []byte                                    { return nil }
func (s *vVecField) ArrayPositions() []uint64                         { return nil }
func (s *vVecField) EncodedFieldType() byte                           { return 'v' }
func (s *vVecField) Analyze()                                         {}
func (s *vVecField) Options() index.FieldIndexingOptions              { return index.IndexField }
func (s *vVecField) AnalyzedLength() int                              { return 0 }
func (s *vVecField) AnalyzedTokenFrequencies() index.TokenFrequencies { return nil }
func (s *vVecField) NumPlainTextBytes() uint64                        { return 0 }
func (s *vVecField) Vector() []float32                                { return s.vec }
func (s *vVecField) Dims() int                                        { return len(s.vec) }
func (s *vVecField) Similarity() string                               { return s.sim }
func (s *vVecField) IndexOptimizedFor() string                        { return index.IndexOptimizedForRecall }

// vCatalogue: concrete 2-dimensional vectors with a duplicate and ties (unit vectors, so that cosine = dot product).
var vCatalogue = [][]float32{{1, 0}, {0, 1}, {1, 0}, {-1, 0}, {0.6, 0.8}}

type sVec struct {
	doc uint64
	vec []float32
}

// vGenVecBatch: nDocs documents, each with 0..2 vectors of field "v" chosen symbolically from the catalogue.
func vGenVecBatch(prefix string, nDocs int, sim string) ([]index.Document, []sVec) {
	var docs []index.Document
	var vecs []sVec
	for d := 0; d < nDocs; d++ {
		id := fmt.Sprint(prefix, d)
		doc := &vDoc{id: id, fields: []index.Field{vIDField(id)}}
		nv := vChoice(fmt.Sprint(prefix, "nv", d), 3)
		for i := 0; i < nv; i++ {
			c := vChoice(fmt.Sprint(prefix, "vec", d, "_", i), vParam("nCat", len(vCatalogue)))
			doc.fields = append(doc.fields, &vVecField{name: "v", vec: vCatalogue[c], sim: sim})
			vecs = append(vecs, sVec{uint64(d), vCatalogue[c]})
		}
		if vParam("secondField", 0) == 1 && vBool(fmt.Sprint(prefix, "u", d)) {
			// a second vector field "u" (sorts before "v") with one fixed vector
			doc.fields = append(doc.fields, &vVecField{name: "u", vec: vCatalogue[4], sim: sim})
		}
		docs = append(docs, doc)
	}
	return docs, vecs
}

func vScore(sim string, q, v []float32) float32 {
	var s float32
	if sim == index.EuclideanDistance {
		for i := range q {
			d := q[i] - v[i]
			s += d * d
		}
		return s
	}
	for i := range q {
		s += q[i] * v[i]
	}
	return s
}

type sVecHit struct {
	doc   uint64
	score float32
}

// sExpectedVec: the k best (doc, score) among admissible vectors - as a sorted multiset of scores,
// plus admissibility of every returned pair.
func sCheckVecResult(pl segment.VecPostingsList, vecs []sVec, sim string, q []float32, k int64, admissible func(doc uint64) bool, tag string) {
	vAssert(pl != nil, tag+"pl")
	var got []sVecHit
	it := pl.Iterator(nil)
	for {
		p, err := it.Next()
		vAssert(err == nil, tag+"next-err")
		if p == nil {
			break
		}
		got = append(got, sVecHit{p.Number(), p.Score()})
		vAssert(len(got) <= 32, tag+"runaway")
	}
	vAssert(int64(len(got)) <= k, tag+"at-most-k")
	if k == 0 {
		return
	}
	// every returned pair is a true score of an admissible document
	for _, g := range got {
		vAssert(admissible(g.doc), tag+"admissible")
		ok := false
		for _, v := range vecs {
			if v.doc == g.doc && vScore(sim, q, v.vec) == g.score {
				ok = true
			}
		}
		vAssert(ok, tag+"true-score")
	}
	// exact index: precisely the k best scores among admissible vectors. Identical (doc, score) pairs
	// collapse in the result (it is a set of codes), so compare sets of pairs among the k best vectors.
	var cand []sVecHit
	for _, v := range vecs {
		if admissible(v.doc) {
			cand = append(cand, sVecHit{v.doc, vScore(sim, q, v.vec)})
		}
	}
	better := func(a, b float32) bool {
		if sim == index.EuclideanDistance {
			return a < b
		}
		return a > b
	}
	sort.SliceStable(cand, func(i, j int) bool { return better(cand[i].score, cand[j].score) })
	if int64(len(cand)) > k {
		// ties at the cut make the choice among equal scores free: only require the score multiset
		cut := cand[k-1].score
		var must []sVecHit
		for _, c := range cand {
			if better(c.score, cut) {
				must = append(must, c)
			}
		}
		for _, m := range must {
			found := false
			for _, g := range got {
				if g == m {
					found = true
				}
			}
			vAssert(found, tag+"best-missing")
		}
		for _, g := range got {
			vAssert(!better(cut, g.score), tag+"worse-than-cut")
		}
		return
	}
	// fewer candidates than k: all of them (as a set of pairs)
	for _, c := range cand {
		found := false
		for _, g := range got {
			if g == c {
				found = true
			}
		}
		vAssert(found, tag+"candidate-missing")
	}
}

func vExcept(name string, n int) (*roaring.Bitmap, []bool) {
	bits := make([]bool, n)
	if vBool(name + "nil") {
		return nil, bits
	}
	bm := roaring.New()
	for d := 0; d < n; d++ {
		if vBool(fmt.Sprint(name, d)) {
			bm.Add(uint32(d))
			bits[d] = true
		}
	}
	return bm, bits
}

var vSims = []string{index.EuclideanDistance, index.InnerProduct, index.CosineSimilarity}

type vStatsSink struct{ n map[string]uint64 }

func (s *vStatsSink) Store(statName, fieldName string, value uint64) {
	s.n[statName+"/"+fieldName] = value
}
func (s *vStatsSink) Aggregate(stats segment.FieldStats)  {}
func (s *vStatsSink) Fetch() map[string]map[string]uint64 { return nil }

// H14_search: vector search against the exact stand-in engine.
func H14_search() {
	nDocs := 1 + vChoice("nDocs", vParam("maxDocs", 2))
	sim := vSims[vChoice("sim", vParam("nSims", len(vSims)))]
	docs, vecs := vGenVecBatch("d", nDocs, sim)
	var z ZapPlugin
	segI, _, err := z.newWithChunkMode(docs, DefaultChunkMode)
	vAssert(err == nil, "build")
	var seg segment.Segment = segI
	if vBool("reopen") {
		vAssert(segI.(*SegmentBase).Persist(vP("v.zap")) == nil, "persist")
		seg, err = z.Open(vP("v.zap"))
		vAssert(err == nil, "open")
	}
	// statistics
	st := &vStatsSink{n: map[string]uint64{}}
	seg.(segment.FieldStatsReporter).UpdateFieldStats(st)
	if len(vecs) > 0 {
		vAssert(st.n["num_vectors/v"] == uint64(len(vecs)), "num-vectors")
	}
	except, excl := vExcept("ex", nDocs)
	filtered := vBool("filtered")
	// optionally another caller has the field open already (warm cache entry, created without a filter)
	var pre segment.VectorIndex
	if vParam("preOpen", 1) == 1 && vBool("preOpen") {
		pre, err = seg.(segment.VectorSegment).InterpretVectorIndex("v", false, nil)
		vAssert(err == nil && pre != nil, "pre-interpret")
	}
	vi, err := seg.(segment.VectorSegment).InterpretVectorIndex("v", filtered, except)
	vAssert(err == nil && vi != nil, "interpret")
	q := vCatalogue[vChoice("q", vParam("nQueries", len(vCatalogue)))]
	k := int64(vChoice("k", vParam("maxK", 4)))
	if filtered {
		var elig []uint64
		isElig := make([]bool, nDocs)
		for d := 0; d < nDocs; d++ {
			if vBool(fmt.Sprint("el", d)) {
				elig = append(elig, uint64(d))
				isElig[d] = true
			}
		}
		if pre != nil {
			// recorded finding (same root as the C16 one): on a cache entry created by an unfiltered open the
			// filtered search does not keep excluded documents out when they are listed as eligible
			// (only on the selector path: with every document eligible the search takes the unfiltered route,
			// which honours the caller's exclusion list)
			for d := 0; d < nDocs; d++ {
				if excl[d] && isElig[d] && len(elig) != nDocs && vSkipKnown("C14-filtered-search-on-warm-cache-ignores-exclusions") {
					return
				}
			}
		}
		pl, err := vi.SearchWithFilter(q, k, elig, nil)
		vAssert(err == nil, "search-err")
		sCheckVecResult(pl, vecs, sim, q, k, func(d uint64) bool { return !excl[d] && isElig[d] }, "f-")
	} else {
		pl, err := vi.Search(q, k, nil)
		vAssert(err == nil, "search-err")
		sCheckVecResult(pl, vecs, sim, q, k, func(d uint64) bool { return !excl[d] }, "")
	}
	// wrong dimension and unknown field: empty
	pl, err := vi.Search([]float32{1, 0, 0}, 3, nil)
	vAssert(err == nil && pl != nil && pl.Count() == 0, "wrong-dim-empty")
	vi.Close()
	if pre != nil {
		pre.Close()
	}
	nf, err := seg.(segment.VectorSegment).InterpretVectorIndex("nofield", false, nil)
	vAssert(err == nil && nf != nil, "nofield")
	pl, err = nf.Search(q, 3, nil)
	vAssert(err == nil && pl != nil && pl.Count() == 0, "nofield-empty")
	nf.Close()
	vAssert(seg.Close() == nil, "close")
	vRunSpawned()
	vAssert(faiss.VerifLive() == 0, "no-live-index")
	vAssert(faiss.VerifDoubleClosed() == 0 && faiss.VerifUsedAfterClose() == 0, "no-misuse")
}

// H15_vecmerge: merged vector index = survivors' vectors under the new numbering.
func H15_vecmerge() {
	sim := index.EuclideanDistance
	n0 := 1 + vChoice("n0", vParam("maxDocs", 2))
	n1 := 1 + vChoice("n1", vParam("maxDocs1", vParam("maxDocs", 2))) // (the second input may be kept smaller)
	docs0, vecs0 := vGenVecBatch("a", n0, sim)
	// (altSim: the second input was indexed with another metric and every document of it is deleted: a dead input
	// decides nothing about the merged index)
	bAlt := vParam("altSim", 0) == 1 && vBool("bAlt")
	sim1 := sim
	if bAlt {
		sim1 = index.InnerProduct
	}
	docs1, vecs1 := vGenVecBatch("b", n1, sim1)
	s0 := vBuildInput(docs0, DefaultChunkMode, vParam("reopen", 1) == 1 && vBool("reopen0"), vP("in0.zap"))
	s1 := vBuildInput(docs1, DefaultChunkMode, false, vP("in1.zap"))
	d0, b0 := vDropBitmap("drop0_", n0)
	d1, b1 := vDropBitmap("drop1_", n1)
	if bAlt {
		d1 = roaring.New()
		b1 = make([]bool, n1)
		for d := 0; d < n1; d++ {
			d1.Add(uint32(d))
			b1[d] = true
		}
	}
	var want []sVec
	next := uint64(0)
	for si, n := range []int{n0, n1} {
		bits := [][]bool{b0, b1}[si]
		vs := [][]sVec{vecs0, vecs1}[si]
		for d := 0; d < n; d++ {
			if bits != nil && bits[d] {
				continue
			}
			for _, v := range vs {
				if v.doc == uint64(d) {
					want = append(want, sVec{next, v.vec})
				}
			}
			next++
		}
	}
	if next == 0 && vSkipKnown("C05-nothing-survives") {
		// recorded finding of C05 (the result of a merge without survivors cannot be queried); what holds stays checked
		var z ZapPlugin
		_, _, err := z.Merge([]segment.Segment{s0, s1}, []*roaring.Bitmap{d0, d1}, vP("m.zap"), nil, nil)
		vAssert(err == nil, "zero-merge")
		m, err := z.Open(vP("m.zap"))
		vAssert(err == nil && m.Count() == 0, "zero-open")
		vAssert(m.Close() == nil, "zero-close")
		if o, ok := s0.(*Segment); ok {
			vAssert(o.Close() == nil, "zero-close-in0")
		}
		vRunSpawned()
		vAssert(faiss.VerifLive() == 0, "zero-no-live-index")
		return
	}
	var z ZapPlugin
	_, _, err := z.Merge([]segment.Segment{s0, s1}, []*roaring.Bitmap{d0, d1}, vP("m.zap"), nil, nil)
	vAssert(err == nil, "merge")
	m, err := z.Open(vP("m.zap"))
	vAssert(err == nil, "open")
	vi, err := m.(segment.VectorSegment).InterpretVectorIndex("v", false, nil)
	vAssert(err == nil && vi != nil, "interpret")
	for qi := range []int{0, 1} {
		q := vCatalogue[qi]
		pl, err := vi.Search(q, 16, nil)
		vAssert(err == nil, "search-err")
		sCheckVecResult(pl, want, sim, q, 16, func(uint64) bool { return true }, "m-")
	}
	st := &vStatsSink{n: map[string]uint64{}}
	m.(segment.FieldStatsReporter).UpdateFieldStats(st)
	if len(want) == 0 {
		_, has := st.n["num_vectors/v"]
		vAssert(!has, "no-index-without-survivors")
	} else {
		vAssert(st.n["num_vectors/v"] == uint64(len(want)), "merged-num-vectors")
	}
	vi.Close()
	vAssert(m.Close() == nil, "close-merged")
	if o, ok := s0.(*Segment); ok {
		vAssert(o.Close() == nil, "close-in0")
	}
	vRunSpawned()
	vAssert(faiss.VerifLive() == 0, "no-live-index")
	vAssert(faiss.VerifDoubleClosed() == 0 && faiss.VerifUsedAfterClose() == 0, "no-misuse")
}

// H16_history: sequences of open / search / close-handle / expiry / on one segment; every search answers
// as a fresh segment would, indexes are released exactly once.
func H16_history() {
	sim := index.EuclideanDistance
	nDocs := 2
	docs := []index.Document{
		&vDoc{id: "d0", fields: []index.Field{vIDField("d0"), &vVecField{name: "v", vec: vCatalogue[0], sim: sim}}},
		&vDoc{id: "d1", fields: []index.Field{vIDField("d1"), &vVecField{name: "v", vec: vCatalogue[1], sim: sim}}},
	}
	vecs := []sVec{{0, vCatalogue[0]}, {1, vCatalogue[1]}}
	var z ZapPlugin
	segI, _, err := z.newWithChunkMode(docs, DefaultChunkMode)
	vAssert(err == nil, "build")
	sb := segI.(*SegmentBase)
	// lockset: the cache map is only touched with the cache's lock held
	vGuardMap(sb.vecIndexCache.cache, &sb.vecIndexCache.m)
	type handle struct {
		vi       segment.VectorIndex
		excl     []bool
		filtered bool
	}
	var open []handle
	var prevExcl [][]bool
	maxEv := vParam("maxEvents", 4)
	for e := 0; e < maxEv; e++ {
		switch vChoice(fmt.Sprint("ev", e), 5) {
		case 0: // open with a symbolic exclusion set
			var except *roaring.Bitmap
			excl := make([]bool, nDocs)
			if vBool(fmt.Sprint("ex", e, "_1")) {
				except = roaring.New()
				except.Add(1)
				excl[1] = true
			}
			// recorded finding: the cache keeps the id map filtered by the exclusions of the caller that created
			// the entry. Only while that entry is still cached: an open that finds no entry (first open, or after
			// the entry expired) creates a fresh one from its own exclusions and is checked in full.
			sb.vecIndexCache.m.RLock()
			_, warm := sb.vecIndexCache.cache[sb.fieldsMap["v"]] // (keyed by field id + 1)
			sb.vecIndexCache.m.RUnlock()
			if !warm {
				prevExcl = prevExcl[:0]
			}
			for _, pe := range prevExcl {
				for d := range pe {
					if pe[d] && !excl[d] && vSkipKnown("C16-cache-remembers-exclusions") {
						return
					}
				}
			}
			if !warm {
				prevExcl = append(prevExcl, excl) // (the creator of the entry)
			}
			filt := vBool(fmt.Sprint("filt", e))
			vi, err := sb.InterpretVectorIndex("v", filt, except)
			vAssert(err == nil && vi != nil, "interpret")
			open = append(open, handle{vi, excl, filt})
		case 1: // search on the most recent handle
			if len(open) == 0 {
				continue
			}
			h := open[len(open)-1]
			q := vCatalogue[vChoice(fmt.Sprint("q", e), 2)]
			if h.filtered {
				// eligible: every document, or only document 0
				elig := []uint64{0, 1}
				all := vBool(fmt.Sprint("eligAll", e))
				if !all {
					elig = []uint64{0}
				}
				pl, err := h.vi.SearchWithFilter(q, 2, elig, nil)
				vAssert(err == nil, "fsearch-err")
				sCheckVecResult(pl, vecs, sim, q, 2, func(d uint64) bool { return !h.excl[d] && (all || d == 0) }, "f-")
			} else {
				pl, err := h.vi.Search(q, 2, nil)
				vAssert(err == nil, "search-err")
				sCheckVecResult(pl, vecs, sim, q, 2, func(d uint64) bool { return !h.excl[d] }, "")
			}
		case 2: // close the oldest handle
			if len(open) == 0 {
				continue
			}
			open[0].vi.Close()
			open = open[1:]
		case 3: // expiry pass
			sb.vecIndexCache.cleanup()
			vRunSpawned()
		case 4: // a quiet period: several expiry passes in a row (the moving average decays below the threshold)
			for i := 0; i < 6; i++ {
				sb.vecIndexCache.cleanup()
				vRunSpawned()
			}
		}
		// an index handed to a caller is not released before that caller closes it
		if len(open) > 0 {
			vAssert(faiss.VerifLive() >= 1, "released-while-open")
		}
		vAssert(faiss.VerifUsedAfterClose() == 0, "use-after-release")
		vAssert(faiss.VerifDoubleClosed() == 0, "double-release")
	}
	for _, h := range open {
		h.vi.Close()
	}
	vAssert(sb.Close() == nil, "close")
	vRunSpawned()
	vAssert(faiss.VerifLive() == 0, "no-live-index")
	vAssert(faiss.VerifDoubleClosed() == 0 && faiss.VerifUsedAfterClose() == 0, "no-misuse")
}

// H19_faults: the n-th call of an engine operation fails during a build or a merge.
func H19_faults() {
	sim := index.EuclideanDistance
	mk := func(prefix string) []index.Document {
		return []index.Document{
			&vDoc{id: prefix + "0", fields: []index.Field{vIDField(prefix + "0"), &vVecField{name: "v", vec: vCatalogue[0], sim: sim}}},
			&vDoc{id: prefix + "1", fields: []index.Field{vIDField(prefix + "1"), &vVecField{name: "v", vec: vCatalogue[4], sim: sim}}},
		}
	}
	ops := []string{"IndexFactory", "AddWithIDs", "WriteIndexIntoBuffer", "ReadIndexFromBuffer", "ReconstructBatch"}
	var z ZapPlugin
	scenario := vChoice("scenario", 2+2*vParam("large", 0))
	if scenario == 3 {
		// a BUILD above the 1000-vector threshold (clustered index class): every engine call of that path fails once
		var docs []index.Document
		for i := 0; i < 1100; i++ {
			id := fmt.Sprint("c", i)
			docs = append(docs, &vDoc{id: id, fields: []index.Field{vIDField(id), &vVecField{name: "v", vec: []float32{float32(i), 1}, sim: sim}}})
		}
		live0 := faiss.VerifLive()
		bops := []string{"IndexFactory", "SetDirectMap", "Train", "AddWithIDs", "WriteIndexIntoBuffer"}
		op := bops[vChoice("bop", len(bops))]
		faiss.VerifFail(op, faiss.VerifCalls(op)+1)
		_, _, err := z.newWithChunkMode(docs, DefaultChunkMode)
		vRunSpawned()
		vAssert(err != nil, "big-build-failure-reported")
		vAssert(faiss.VerifLive() == live0, "big-build-no-index-leak")
		vAssert(faiss.VerifDoubleClosed() == 0 && faiss.VerifUsedAfterClose() == 0, "big-build-no-misuse")
		return
	}
	if scenario == 2 {
		// merge whose result crosses the 1000-vector threshold: clustered index path (SetDirectMap, Train)
		big := func(prefix string, n int) []index.Document {
			var docs []index.Document
			for i := 0; i < n; i++ {
				id := fmt.Sprint(prefix, i)
				docs = append(docs, &vDoc{id: id, fields: []index.Field{vIDField(id), &vVecField{name: "v", vec: []float32{float32(i), 1}, sim: sim}}})
			}
			return docs
		}
		s0, _, err := z.newWithChunkMode(big("a", 520), DefaultChunkMode)
		vAssert(err == nil, "big-build0")
		s1, _, err := z.newWithChunkMode(big("b", 520), DefaultChunkMode)
		vAssert(err == nil, "big-build1")
		live0 := faiss.VerifLive()
		bops := []string{"IndexFactory", "SetDirectMap", "Train", "AddWithIDs", "WriteIndexIntoBuffer"}
		op := bops[vChoice("bop", len(bops))]
		faiss.VerifFail(op, faiss.VerifCalls(op)+1)
		_, _, err = z.Merge([]segment.Segment{s0, s1}, []*roaring.Bitmap{nil, nil}, vP("big.zap"), nil, nil)
		vRunSpawned()
		vAssert(err != nil, "big-failure-reported")
		vAssert(!vFSExists(vP("big.zap")), "big-error-no-file")
		vAssert(faiss.VerifLive() == live0, "big-no-index-leak")
		return
	}
	if scenario == 0 {
		// build
		op := ops[vChoice("op", 3)]
		faiss.VerifFail(op, 1)
		seg, _, err := z.newWithChunkMode(mk("a"), DefaultChunkMode)
		if err == nil {
			if vSkipKnown("C19-build-swallows-engine-error") {
				return
			}
			// no error: then the vector field must be complete
			vi, err := seg.(segment.VectorSegment).InterpretVectorIndex("v", false, nil)
			vAssert(err == nil, "interpret")
			pl, err := vi.Search(vCatalogue[0], 2, nil)
			vAssert(err == nil && pl.Count() == 2, "silently-incomplete")
			vi.Close()
		}
		vRunSpawned()
		return
	}
	s0, _, err := z.newWithChunkMode(mk("a"), DefaultChunkMode)
	vAssert(err == nil, "build0")
	s1, _, err := z.newWithChunkMode(mk("b"), DefaultChunkMode)
	vAssert(err == nil, "build1")
	live0 := faiss.VerifLive()
	op := ops[vChoice("op", len(ops))]
	nth := 1 + vChoice("nth", 2)
	faiss.VerifFail(op, faiss.VerifCalls(op)+nth)
	drop := roaring.New()
	drop.Add(0)
	_, _, err = z.Merge([]segment.Segment{s0, s1}, []*roaring.Bitmap{drop, nil}, vP("m.zap"), nil, nil)
	vRunSpawned()
	if err != nil {
		vAssert(!vFSExists(vP("m.zap")), "error-no-file")
		vAssert(vFSOpenHandles() == 0, "handle-closed")
		vAssert(faiss.VerifLive() == live0, "no-index-leak")
		vAssert(faiss.VerifDoubleClosed() == 0, "no-double-close")
		return
	}
	// the failure did not happen (fewer calls than nth) or was swallowed: the result must be complete
	m, err := z.Open(vP("m.zap"))
	vAssert(err == nil, "open")
	vi, err := m.(segment.VectorSegment).InterpretVectorIndex("v", false, nil)
	vAssert(err == nil, "interpret")
	pl, err := vi.Search(vCatalogue[0], 4, nil)
	vAssert(err == nil && pl.Count() == 3, "silently-incomplete")
	vi.Close()
}

// H16_recheck: the branch of the cache that an opener takes when it missed under the read lock but finds the
// entry created by a concurrent opener once it holds the write lock (the losing side of a race): entered
// directly, with the entry present, it must answer exactly as a hit does - the caller's own exclusion list,
// the complete id maps, one more reference.
func H16_recheck() {
	sim := index.EuclideanDistance
	docs := []index.Document{
		&vDoc{id: "d0", fields: []index.Field{vIDField("d0"), &vVecField{name: "v", vec: vCatalogue[0], sim: sim}}},
		&vDoc{id: "d1", fields: []index.Field{vIDField("d1"), &vVecField{name: "v", vec: vCatalogue[1], sim: sim}, &vVecField{name: "v", vec: vCatalogue[4], sim: sim}}},
	}
	var z ZapPlugin
	segI, _, err := z.newWithChunkMode(docs, DefaultChunkMode)
	vAssert(err == nil, "build")
	sb := segI.(*SegmentBase)
	// the winner of the race: an opener without exclusions created the entry
	first, err := sb.InterpretVectorIndex("v", vBool("winnerFiltered"), nil)
	vAssert(err == nil && first != nil, "first-open")
	fieldIDPlus1 := sb.fieldsMap["v"]
	vc := sb.vecIndexCache
	except, excl := vExcept("ex", 2)
	wantMaps := vBool("loserFiltered")
	vc.m.Lock()
	idx, vecDocIDMap, docVecIDMap, toExclude, err := vc.createAndCacheLOCKED(fieldIDPlus1, nil, wantMaps, except)
	vc.m.Unlock()
	vAssert(err == nil && idx != nil, "recheck-index")
	vAssert(len(vecDocIDMap) == 3, "complete-id-map")
	nEx := 0
	for id, d := range vecDocIDMap {
		if excl[d] {
			nEx++
			found := false
			for _, e := range toExclude {
				if e == id {
					found = true
				}
			}
			vAssert(found, "excluded-id-listed")
		}
	}
	vAssert(len(toExclude) == nEx, "exclusion-list-exact")
	if wantMaps {
		vAssert(len(docVecIDMap) == 2 && len(docVecIDMap[1]) == 2, "doc-to-vector-map")
	}
	// two references are out now: both are given back, then the segment closes cleanly
	vc.decRef(fieldIDPlus1)
	first.Close()
	vAssert(sb.Close() == nil, "close")
	vRunSpawned()
	vAssert(faiss.VerifLive() == 0, "no-live-index")
	vAssert(faiss.VerifDoubleClosed() == 0 && faiss.VerifUsedAfterClose() == 0, "no-misuse")
}

// H18_vec (C18 with a vector section): the close channel becomes closed at any poll of a merge of two vector
// segments: the closed error, no file and every reconstructed / newly built engine index released - or a
// complete file holding exactly the survivors' vectors.
func H18_vec() {
	sim := index.EuclideanDistance
	mk := func(prefix string, vs ...int) []index.Document {
		var docs []index.Document
		for i, c := range vs {
			id := fmt.Sprint(prefix, i)
			docs = append(docs, &vDoc{id: id, fields: []index.Field{vIDField(id), &vVecField{name: "v", vec: vCatalogue[c], sim: sim},
				vTextField("t", 1, []vTerm{{term: "a", freq: 1}}, index.IndexField|index.DocValues, nil, nil, 't')}})
		}
		return docs
	}
	var z ZapPlugin
	s0 := vBuildInput(mk("a", 0, 4), DefaultChunkMode, vBool("reopen0"), vP("in0.zap"))
	s1 := vBuildInput(mk("b", 1), DefaultChunkMode, false, vP("in1.zap"))
	var drop *roaring.Bitmap
	want := []sVec{{0, vCatalogue[0]}, {1, vCatalogue[4]}, {2, vCatalogue[1]}}
	if vBool("drop") {
		drop = roaring.New()
		drop.Add(0)
		want = []sVec{{0, vCatalogue[4]}, {1, vCatalogue[1]}}
	}
	live0 := faiss.VerifLive()
	st := &vCancelStats{}
	ch := vCloseChan(&st.writes)
	path := vP("m.zap")
	_, _, err := z.Merge([]segment.Segment{s0, s1}, []*roaring.Bitmap{drop, nil}, path, ch, st)
	vRunSpawned()
	vAssert(vFSOpenHandles() == vOpenCount(s0), "handle-closed")
	vAssert(faiss.VerifLive() == live0, "no-index-leak")
	vAssert(faiss.VerifDoubleClosed() == 0 && faiss.VerifUsedAfterClose() == 0, "no-misuse")
	if err != nil {
		vAssert(err == segment.ErrClosed, "err-is-closed")
		vAssert(!vFSExists(path), "error-no-file")
		return
	}
	m, err := z.Open(path)
	vAssert(err == nil, "open")
	vAssert(m.Count() == uint64(len(want)), "count")
	vi, err := m.(segment.VectorSegment).InterpretVectorIndex("v", false, nil)
	vAssert(err == nil && vi != nil, "interpret")
	for qi := range []int{0, 1} {
		q := vCatalogue[qi]
		pl, err := vi.Search(q, 16, nil)
		vAssert(err == nil, "search-err")
		sCheckVecResult(pl, want, sim, q, 16, func(uint64) bool { return true }, "m-")
	}
	vi.Close()
	vAssert(m.Close() == nil, "close-merged")
}

// H19_nth: the n-th call of each engine operation fails, for every n that occurs in the fault-free run of the
// same build / merge (one or two vector fields, so that operations are called several times).
func H19_nth() {
	sim := index.EuclideanDistance
	nf := 1 + vChoice("fields", 2)
	mk := func(prefix string, cs ...int) []index.Document {
		var docs []index.Document
		for i, c := range cs {
			id := fmt.Sprint(prefix, i)
			fields := []index.Field{vIDField(id), &vVecField{name: "v", vec: vCatalogue[c], sim: sim}}
			if nf == 2 {
				fields = append(fields, &vVecField{name: "w", vec: vCatalogue[(c+1)%len(vCatalogue)], sim: sim})
			}
			docs = append(docs, &vDoc{id: id, fields: fields})
		}
		return docs
	}
	ops := []string{"IndexFactory", "AddWithIDs", "WriteIndexIntoBuffer", "ReadIndexFromBuffer", "ReconstructBatch", "SetDirectMap", "Train"}
	op := ops[vChoice("op", len(ops))]
	var z ZapPlugin
	complete := func(seg segment.Segment, n int, tag string) {
		for _, f := range []string{"v", "w"}[:nf] {
			vi, err := seg.(segment.VectorSegment).InterpretVectorIndex(f, false, nil)
			vAssert(err == nil, tag+"interpret")
			pl, err := vi.Search(vCatalogue[0], 8, nil)
			vAssert(err == nil && pl.Count() == uint64(n), tag+"silently-incomplete")
			vi.Close()
		}
	}
	if vBool("merge") {
		s0, _, err := z.newWithChunkMode(mk("a", 0, 4), DefaultChunkMode)
		vAssert(err == nil, "build0")
		s1, _, err := z.newWithChunkMode(mk("b", 1, 2), DefaultChunkMode)
		vAssert(err == nil, "build1")
		drop := roaring.New()
		drop.Add(0)
		c0 := faiss.VerifCalls(op)
		_, _, err = z.Merge([]segment.Segment{s0, s1}, []*roaring.Bitmap{drop, nil}, vP("m0.zap"), nil, nil)
		vAssert(err == nil, "fault-free-merge")
		vRunSpawned()
		calls := faiss.VerifCalls(op) - c0
		if calls == 0 {
			return
		}
		live0 := faiss.VerifLive()
		faiss.VerifFail(op, faiss.VerifCalls(op)+1+vChoice("nth", calls))
		_, _, err = z.Merge([]segment.Segment{s0, s1}, []*roaring.Bitmap{drop, nil}, vP("m.zap"), nil, nil)
		vRunSpawned()
		vAssert(err != nil, "failure-reported")
		vAssert(!vFSExists(vP("m.zap")), "error-no-file")
		vAssert(vFSOpenHandles() == 0, "handle-closed")
		vAssert(faiss.VerifLive() == live0, "no-index-leak")
		vAssert(faiss.VerifDoubleClosed() == 0 && faiss.VerifUsedAfterClose() == 0, "no-misuse")
		return
	}
	c0 := faiss.VerifCalls(op)
	seg, _, err := z.newWithChunkMode(mk("a", 0, 4, 1), DefaultChunkMode)
	vAssert(err == nil, "fault-free-build")
	vRunSpawned()
	calls := faiss.VerifCalls(op) - c0
	complete(seg, 3, "free-")
	if calls == 0 {
		return
	}
	live0 := faiss.VerifLive()
	faiss.VerifFail(op, faiss.VerifCalls(op)+1+vChoice("nth", calls))
	seg2, _, err := z.newWithChunkMode(mk("a", 0, 4, 1), DefaultChunkMode)
	vRunSpawned()
	if err != nil {
		vAssert(faiss.VerifLive() == live0, "build-no-index-leak")
		return
	}
	complete(seg2, 3, "after-")
}

// H14_large: a segment above the 1000-vector threshold (the builder chooses the clustered index class and the
// filtered search goes through the cluster API - emulated by the stand-in with one cluster, exact results):
// concrete vectors (i, 1), symbolic query position, k, excluded block and eligible block.
func H14_large() {
	sim := index.EuclideanDistance
	n := vParam("nLarge", 1100)
	var docs []index.Document
	var vecs []sVec
	for i := 0; i < n; i++ {
		id := fmt.Sprint("d", i)
		v := []float32{float32(i), 1}
		docs = append(docs, &vDoc{id: id, fields: []index.Field{vIDField(id), &vVecField{name: "v", vec: v, sim: sim}}})
		vecs = append(vecs, sVec{uint64(i), v})
	}
	// choices first (so that shards split on them, not inside the build)
	q := []float32{[]float32{0, 550.5, float32(n - 1)}[vChoice("q", 3)], 1}
	k := int64([]int{1, 3}[vChoice("k", 2)])
	exLo, exHi := [][2]int{{0, 0}, {0, 100}, {500, 600}}[vChoice("except", 3)][0], [][2]int{{0, 0}, {0, 100}, {500, 600}}[vChoice("except", 3)][1]
	mode := vChoice("mode", 4) // 0 unfiltered; 1..3 filtered with an eligible block
	elig := [][2]int{{0, 0}, {0, 200}, {540, 560}, {0, n}}[mode]
	reopen := vBool("reopen")
	var z ZapPlugin
	segI, _, err := z.newWithChunkMode(docs, DefaultChunkMode)
	vAssert(err == nil, "build")
	var seg segment.Segment = segI
	if reopen {
		vAssert(segI.(*SegmentBase).Persist(vP("big.zap")) == nil, "persist")
		seg, err = z.Open(vP("big.zap"))
		vAssert(err == nil, "open")
	}
	var except *roaring.Bitmap
	if exHi > exLo {
		except = roaring.New()
		except.AddRange(uint64(exLo), uint64(exHi))
	}
	excluded := func(d uint64) bool { return int(d) >= exLo && int(d) < exHi }
	vi, err := seg.(segment.VectorSegment).InterpretVectorIndex("v", mode != 0, except)
	vAssert(err == nil && vi != nil, "interpret")
	if mode == 0 {
		pl, err := vi.Search(q, k, nil)
		vAssert(err == nil, "search-err")
		sCheckVecResult(pl, vecs, sim, q, k, func(d uint64) bool { return !excluded(d) }, "")
	} else {
		var ids []uint64
		for d := elig[0]; d < elig[1]; d++ {
			ids = append(ids, uint64(d))
		}
		pl, err := vi.SearchWithFilter(q, k, ids, nil)
		vAssert(err == nil, "search-err")
		sCheckVecResult(pl, vecs, sim, q, k, func(d uint64) bool { return !excluded(d) && int(d) >= elig[0] && int(d) < elig[1] }, "f-")
	}
	vi.Close()
	vAssert(seg.Close() == nil, "close")
	vRunSpawned()
	vAssert(faiss.VerifLive() == 0, "no-live-index")
	vAssert(faiss.VerifDoubleClosed() == 0 && faiss.VerifUsedAfterClose() == 0, "no-misuse")
}

// H16_fields: the cache with two vector fields (adjacent field ids): handles on one field are opened, used and
// closed while the other field's entry ages and expires. Every search answers as a fresh segment would, an
// entry is never released while a handle on *its* field is open, and entries without holders do expire.
func H16_fields() {
	sim := index.EuclideanDistance
	docs := []index.Document{
		&vDoc{id: "d0", fields: []index.Field{vIDField("d0"), &vVecField{name: "u", vec: vCatalogue[4], sim: sim}, &vVecField{name: "v", vec: vCatalogue[0], sim: sim}}},
		&vDoc{id: "d1", fields: []index.Field{vIDField("d1"), &vVecField{name: "u", vec: vCatalogue[3], sim: sim}, &vVecField{name: "v", vec: vCatalogue[1], sim: sim}}},
	}
	vecs := map[string][]sVec{"u": {{0, vCatalogue[4]}, {1, vCatalogue[3]}}, "v": {{0, vCatalogue[0]}, {1, vCatalogue[1]}}}
	var z ZapPlugin
	segI, _, err := z.newWithChunkMode(docs, DefaultChunkMode)
	vAssert(err == nil, "build")
	sb := segI.(*SegmentBase)
	vGuardMap(sb.vecIndexCache.cache, &sb.vecIndexCache.m)
	type handle struct {
		vi    segment.VectorIndex
		field string
	}
	var open []handle
	maxEv := vParam("maxEvents", 5)
	for e := 0; e < maxEv; e++ {
		switch vChoice(fmt.Sprint("ev", e), 5) {
		case 0, 1: // open field u / v
			f := []string{"u", "v"}[vChoice(fmt.Sprint("ev", e), 5)]
			vi, err := sb.InterpretVectorIndex(f, false, nil)
			vAssert(err == nil && vi != nil, "interpret")
			open = append(open, handle{vi, f})
		case 2: // search on every open handle
			for _, h := range open {
				q := vCatalogue[1]
				pl, err := h.vi.Search(q, 2, nil)
				vAssert(err == nil, "search-err")
				sCheckVecResult(pl, vecs[h.field], sim, q, 2, func(uint64) bool { return true }, h.field+"-")
			}
		case 3: // close the oldest handle
			if len(open) == 0 {
				continue
			}
			open[0].vi.Close()
			open = open[1:]
		case 4: // a quiet period: several expiry passes in a row
			for i := 0; i < 6; i++ {
				sb.vecIndexCache.cleanup()
				vRunSpawned()
			}
			// entries without holders are gone after a quiet period, entries with holders are still cached
			held := map[string]bool{}
			for _, h := range open {
				held[h.field] = true
			}
			sb.vecIndexCache.m.RLock()
			for _, f := range []string{"u", "v"} {
				_, cached := sb.vecIndexCache.cache[sb.fieldsMap[f]]
				vAssert(cached == held[f], "cached-iff-held-"+f)
			}
			sb.vecIndexCache.m.RUnlock()
		}
		held := map[string]bool{}
		for _, h := range open {
			held[h.field] = true
		}
		vAssert(faiss.VerifLive() >= len(held), "released-while-open")
		vAssert(faiss.VerifUsedAfterClose() == 0, "use-after-release")
		vAssert(faiss.VerifDoubleClosed() == 0, "double-release")
	}
	for _, h := range open {
		h.vi.Close()
	}
	vAssert(sb.Close() == nil, "close")
	vRunSpawned()
	vAssert(faiss.VerifLive() == 0, "no-live-index")
	vAssert(faiss.VerifDoubleClosed() == 0 && faiss.VerifUsedAfterClose() == 0, "no-misuse")
}

// H10_vec (C10 under the vectors tag): a vector batch and a plain batch built one after the other on the pooled
// builder, in either order: the plain segment has no vector index on any field (and the content of its own
// batch), the vector segment holds exactly its own vectors.
func H10_vec() {
	sim := index.EuclideanDistance
	var z ZapPlugin
	plainCfg := gCfg{prefix: "b", idBase: "b", nDocs: 1 + vChoice("bDocs", vParam("bMax", 1)), wide: -1, noFx: true,
		fields: []gField{
			{name: "f", terms: []string{"a"}, tv: true, maxLocs: 1, store: true},
			{name: "g", terms: []string{"c"}, dv: true},
		}}
	checkPlain := func(seg segment.Segment, sp *sSpec, tag string) {
		sCheckStored(seg, sp, tag)
		sCheckPostings(seg, sp, tag)
		for _, f := range []string{"f", "g", "u", "v", "_id"} {
			vi, err := seg.(segment.VectorSegment).InterpretVectorIndex(f, false, nil)
			vAssert(err == nil && vi != nil, tag+"interpret")
			pl, err := vi.Search(vCatalogue[0], 4, nil)
			vAssert(err == nil && pl != nil && pl.Count() == 0, tag+"phantom-vectors")
			vi.Close()
		}
		st := &vStatsSink{n: map[string]uint64{}}
		seg.(segment.FieldStatsReporter).UpdateFieldStats(st)
		vAssert(len(st.n) == 0, tag+"phantom-stats")
	}
	vecDocs, vecs := vGenVecBatch("a", 2, sim)
	vecFirst := vBool("vecFirst")
	if !vecFirst {
		docs, sp := vGenBatch(plainCfg)
		seg, _, err := z.newWithChunkMode(docs, DefaultChunkMode)
		vAssert(err == nil, "plain-build")
		checkPlain(seg, sp, "p1-")
	}
	vseg, _, err := z.newWithChunkMode(vecDocs, DefaultChunkMode)
	vAssert(err == nil, "vec-build")
	vi, err := vseg.(segment.VectorSegment).InterpretVectorIndex("v", false, nil)
	vAssert(err == nil && vi != nil, "interpret")
	pl, err := vi.Search(vCatalogue[0], 8, nil)
	vAssert(err == nil, "search-err")
	sCheckVecResult(pl, vecs, sim, vCatalogue[0], 8, func(uint64) bool { return true }, "v-")
	vi.Close()
	if vecFirst {
		docs, sp := vGenBatch(plainCfg)
		seg, _, err := z.newWithChunkMode(docs, DefaultChunkMode)
		vAssert(err == nil, "plain-build")
		checkPlain(seg, sp, "p2-")
		if vBool("reopen") {
			vAssert(seg.(*SegmentBase).Persist(vP("p.zap")) == nil, "persist")
			o, err := z.Open(vP("p.zap"))
			vAssert(err == nil, "open")
			checkPlain(o, sp, "p2o-")
			vAssert(o.Close() == nil, "close")
		}
	}
	vRunSpawned()
}

// H16_lockset (reduction R1 for "concurrent searchers with the expiry monitor running"): the cache map, and the
// fields of a cache entry that searchers read and the monitor / a filtered opener write (reference count, id
// maps), are only touched with the cache's lock held - in particular a reference is taken inside the same
// critical section that found the entry. Then concurrent openers, closers and expiry passes are equivalent to
// one of the sequential histories H16_history explores. Natively (replay of a lockset counterexample) the
// harness is a concurrent stress run under the race detector.
func H16_lockset() {
	sim := index.EuclideanDistance
	docs := []index.Document{
		&vDoc{id: "d0", fields: []index.Field{vIDField("d0"), &vVecField{name: "v", vec: vCatalogue[0], sim: sim}}},
		&vDoc{id: "d1", fields: []index.Field{vIDField("d1"), &vVecField{name: "v", vec: vCatalogue[1], sim: sim}}},
	}
	var z ZapPlugin
	segI, _, err := z.newWithChunkMode(docs, DefaultChunkMode)
	vAssert(err == nil, "build")
	sb := segI.(*SegmentBase)
	if !vSymbolic() {
		// several goroutines open, hold briefly and close unfiltered handles while this goroutine does the
		// first filtered open (which adds the doc->vector map to the entry) and an expiry pass runs now and then;
		// no engine searches run concurrently (the stand-in's ledger is not synchronised)
		// (a fresh segment - a fresh cache entry - per round: the doc->vector map is added once per entry)
		const workers, rounds = 6, 300
		for r := 0; r < rounds; r++ {
			sI, _, err := z.newWithChunkMode(docs, DefaultChunkMode)
			vAssert(err == nil, "stress-build")
			s := sI.(*SegmentBase)
			done := make(chan struct{}, workers)
			start := make(chan struct{})
			for w := 0; w < workers; w++ {
				go func() {
					defer func() { done <- struct{}{} }()
					<-start
					for i := 0; i < 12; i++ {
						vi, err := s.InterpretVectorIndex("v", false, nil)
						if err == nil && vi != nil {
							vi.Close()
						}
					}
				}()
			}
			close(start)
			for i := 0; i < 4; i++ {
				vi, err := s.InterpretVectorIndex("v", true, nil)
				vAssert(err == nil && vi != nil, "filtered-open")
				vi.Close()
			}
			s.vecIndexCache.cleanup()
			for w := 0; w < workers; w++ {
				<-done
			}
			vAssert(s.Close() == nil, "stress-close")
		}
		_ = sb
		return
	}
	vGuardMap(sb.vecIndexCache.cache, &sb.vecIndexCache.m)
	// first open creates the entry; its fields are guarded from then on
	first, err := sb.InterpretVectorIndex("v", false, nil)
	vAssert(err == nil && first != nil, "interpret")
	sb.vecIndexCache.m.RLock()
	e := sb.vecIndexCache.cache[sb.fieldsMap["v"]]
	sb.vecIndexCache.m.RUnlock()
	vAssert(e != nil, "entry-cached")
	vGuardAny(&e.refs, &sb.vecIndexCache.m)
	vGuard(&e.docVecIDMap, &sb.vecIndexCache.m)
	var open []segment.VectorIndex
	open = append(open, first)
	for ev := 0; ev < vParam("maxEvents", 4); ev++ {
		switch vChoice(fmt.Sprint("ev", ev), 4) {
		case 0:
			vi, err := sb.InterpretVectorIndex("v", false, nil)
			vAssert(err == nil && vi != nil, "interpret")
			open = append(open, vi)
		case 1: // filtered open: takes the lock-upgrade path the first time
			vi, err := sb.InterpretVectorIndex("v", true, nil)
			vAssert(err == nil && vi != nil, "interpret-filtered")
			open = append(open, vi)
		case 2:
			if len(open) > 0 {
				open[0].Close()
				open = open[1:]
			}
		case 3:
			sb.vecIndexCache.cleanup()
		}
	}
	for _, vi := range open {
		vi.Close()
	}
}

// H14_metrics: two vector fields with different similarity metrics in one segment (every ordered pair of
// distinct metrics): each field is searched and scored with its own metric, whichever field the builder
// happens to write first (the builder walks its field map in Go's random order; the interpreter walks maps in
// insertion order and, in the reverse-map runs, in reverse insertion order).
func H14_metrics() {
	pair := vChoice("pair", 6)
	su := vSims[pair/2]
	sv := vSims[(pair/2+1+pair%2)%3]
	docs := []index.Document{
		&vDoc{id: "d0", fields: []index.Field{vIDField("d0"), &vVecField{name: "u", vec: vCatalogue[4], sim: su}, &vVecField{name: "v", vec: vCatalogue[0], sim: sv}}},
		&vDoc{id: "d1", fields: []index.Field{vIDField("d1"), &vVecField{name: "u", vec: vCatalogue[3], sim: su}, &vVecField{name: "v", vec: vCatalogue[1], sim: sv}}},
		&vDoc{id: "d2", fields: []index.Field{vIDField("d2"), &vVecField{name: "v", vec: vCatalogue[4], sim: sv}}},
	}
	if vBool("uLast") {
		// (field u first seen after field v: the other insertion order of the builder's field map)
		docs[0], docs[2] = docs[2], docs[0]
	}
	vecs := map[string][]sVec{}
	for d, doc := range docs {
		for _, f := range doc.(*vDoc).fields {
			if vf, ok := f.(*vVecField); ok {
				vecs[vf.name] = append(vecs[vf.name], sVec{uint64(d), vf.vec})
			}
		}
	}
	var z ZapPlugin
	segI, _, err := z.newWithChunkMode(docs, DefaultChunkMode)
	vAssert(err == nil, "build")
	var seg segment.Segment = segI
	if vBool("reopen") {
		vAssert(segI.(*SegmentBase).Persist(vP("mx.zap")) == nil, "persist")
		seg, err = z.Open(vP("mx.zap"))
		vAssert(err == nil, "open")
	}
	for _, f := range []string{"u", "v"} {
		sim := map[string]string{"u": su, "v": sv}[f]
		vi, err := seg.(segment.VectorSegment).InterpretVectorIndex(f, false, nil)
		vAssert(err == nil && vi != nil, "interpret")
		for qi := 0; qi < 2; qi++ {
			q := vCatalogue[[]int{1, 4}[qi]]
			pl, err := vi.Search(q, 2, nil)
			vAssert(err == nil, "search-err")
			sCheckVecResult(pl, vecs[f], sim, q, 2, func(uint64) bool { return true }, f+"-")
		}
		vi.Close()
	}
	vAssert(seg.Close() == nil, "close")
	vRunSpawned()
}
