package zap

import (
	"fmt"

	"github.com/RoaringBitmap/roaring/v2"
	index "github.com/blevesearch/bleve_index_api"
	segment "github.com/blevesearch/scorch_segment_api/v2"
)

func init() {
	vRegister("H06_large", H06_large)
	vRegister("H01_large", H01_large)
}

// vLargeBatch: n documents; every document has the term in field "body" with frequency 1 + d%3, field length
// 2 + d%5, and one location at position d.
func vLargeBatch(prefix, term string, n int) []index.Document {
	docs := make([]index.Document, 0, n)
	for d := 0; d < n; d++ {
		id := fmt.Sprint(prefix, d)
		f := vTextField("body", 2+d%5, []vTerm{{term: term, freq: 1 + d%3, locs: []vLoc{{pos: d, start: d, end: d + 1}}}},
			index.IndexField|index.IncludeTermVectors, nil, nil, 't')
		docs = append(docs, &vDoc{id: id, fields: []index.Field{vIDField(id), f}})
	}
	return docs
}

// H06_large: cardinalities beyond 1024 (several chunk-size buckets of the default chunk mode): a small segment
// and a large one are merged with a block of the large one's documents deleted; every surviving posting of
// the merged segment has the frequency, norm and location of its source document, also when reached by
// Advance across chunk boundaries. (Concrete data; the deleted block and the probe positions are symbolic.)
func H06_large() {
	nLarge := vParam("nLarge", 1100)
	// (choices first: a shard that does not own the combination gives up before the expensive builds)
	dropChoice := vChoice("dropBlock", vParam("nBlocks", 6))
	dropInSmall := vBool("dropInSmall")
	probeChoice := vChoice("probe", vParam("nProbes", 7))
	var z ZapPlugin
	s0, _, err := z.newWithChunkMode(vLargeBatch("a", "cold", 8), DefaultChunkMode)
	vAssert(err == nil, "build0")
	s1, _, err := z.newWithChunkMode(vLargeBatch("b", "hot", nLarge), DefaultChunkMode)
	vAssert(err == nil, "build1")
	// delete the first k documents of the large segment
	ks := []int{200, 0, nLarge - 1024, nLarge - 1023, 1, 76}
	k := ks[dropChoice]
	if k < 0 {
		k = 0
	}
	d1 := roaring.New()
	for d := 0; d < k; d++ {
		d1.Add(uint32(d))
	}
	var d0 *roaring.Bitmap
	if dropInSmall {
		d0 = roaring.New()
		d0.Add(3)
	}
	nums, _, err := z.Merge([]segment.Segment{s0, s1}, []*roaring.Bitmap{d0, d1}, vP("large.zap"), nil, nil)
	vAssert(err == nil, "merge")
	m, err := z.Open(vP("large.zap"))
	vAssert(err == nil, "open")
	survivors := nLarge - k
	dict, err := m.Dictionary("body")
	vAssert(err == nil, "dict")
	pl, err := dict.PostingsList([]byte("hot"), nil, nil)
	vAssert(err == nil && pl.Count() == uint64(survivors), "count")
	// full iteration
	it := pl.Iterator(true, true, true, nil)
	for d := k; d < nLarge; d++ {
		p, err := it.Next()
		vAssert(err == nil && p != nil, "hit")
		vAssert(p.Number() == nums[1][d], "hit-doc")
		vAssert(p.Frequency() == uint64(1+d%3), "hit-freq")
		vAssert(p.(*Posting).NormUint64() == uint64(2+d%5), "hit-norm")
		locs := p.Locations()
		vAssert(len(locs) == 1 && locs[0].Pos() == uint64(d) && locs[0].Field() == "body", "hit-loc")
	}
	p, err := it.Next()
	vAssert(err == nil && p == nil, "end")
	// Advance to probe positions around the chunk boundaries the reader derives
	probes := []int{k + survivors/2, k + survivors/2 - 1, nLarge - 1, k, k + 1, k + survivors/2 + 1, nLarge - 2}
	d := probes[probeChoice]
	if d < k {
		d = k
	}
	it2 := pl.Iterator(true, true, true, nil)
	p, err = it2.Advance(nums[1][d])
	vAssert(err == nil && p != nil, "adv-hit")
	vAssert(p.Number() == nums[1][d] && p.Frequency() == uint64(1+d%3) && p.(*Posting).NormUint64() == uint64(2+d%5), "adv-details")
	if d+1 < nLarge {
		p, err = it2.Next()
		vAssert(err == nil && p != nil && p.Number() == nums[1][d+1] && p.Frequency() == uint64(1+(d+1)%3), "adv-next")
	}
	// the small segment's term is intact as well
	plc, err := dict.PostingsList([]byte("cold"), nil, nil)
	want := 8
	if d0 != nil {
		want = 7
	}
	vAssert(err == nil && plc.Count() == uint64(want), "cold-count")
}

// H01_large: builds above the 1024 boundary (the cardinality-dependent chunk sizes of modes 1025 / 1026):
// single-valued documents, and a multi-valued field whose two values repeat the same term (the builder merges
// them into one posting per document - the number of field instances is twice the cardinality). Every
// posting read back (full iteration and Advance probes, in memory or re-opened) has the frequency, norm and
// locations of its document. Concrete data; shape, chunk mode, probe and re-opening are symbolic choices.
func H01_large() {
	shape := vChoice("shape", 3)
	mode := []uint32{1026, 1025, 300}[vChoice("mode", 3)]
	probeChoice := vChoice("probe", 3)
	reopen := vBool("reopen")
	n := []int{vParam("nLarge", 1100), 600, 1030}[shape]
	docs := make([]index.Document, 0, n)
	for d := 0; d < n; d++ {
		id := fmt.Sprint("d", d)
		f := vTextField("body", 2+d%5, []vTerm{{term: "hot", freq: 1 + d%3, locs: []vLoc{{pos: d, start: d, end: d + 1}}}},
			index.IndexField|index.IncludeTermVectors, nil, nil, 't')
		fields := []index.Field{vIDField(id), f}
		if shape == 1 {
			fields = append(fields, vTextField("body", 1, []vTerm{{term: "hot", freq: 1, locs: []vLoc{{pos: d + 1000, start: d, end: d + 1}}}},
				index.IndexField|index.IncludeTermVectors, nil, nil, 't'))
		}
		docs = append(docs, &vDoc{id: id, fields: fields})
	}
	var z ZapPlugin
	segI, _, err := z.newWithChunkMode(docs, mode)
	vAssert(err == nil, "build")
	var seg segment.Segment = segI
	if reopen {
		vAssert(segI.(*SegmentBase).Persist(vP("large1.zap")) == nil, "persist")
		seg, err = z.Open(vP("large1.zap"))
		vAssert(err == nil, "open")
	}
	wantFreq := func(d int) uint64 {
		if shape == 1 {
			return uint64(2 + d%3)
		}
		return uint64(1 + d%3)
	}
	wantNorm := func(d int) uint64 {
		if shape == 1 {
			return uint64(3 + d%5)
		}
		return uint64(2 + d%5)
	}
	dict, err := seg.Dictionary("body")
	vAssert(err == nil, "dict")
	pl, err := dict.PostingsList([]byte("hot"), nil, nil)
	vAssert(err == nil && pl.Count() == uint64(n), "count")
	it := pl.Iterator(true, true, true, nil)
	for d := 0; d < n; d++ {
		p, err := it.Next()
		vAssert(err == nil && p != nil, "hit")
		vAssert(p.Number() == uint64(d), "hit-doc")
		vAssert(p.Frequency() == wantFreq(d), "hit-freq")
		vAssert(p.(*Posting).NormUint64() == wantNorm(d), "hit-norm")
		locs := p.Locations()
		if shape == 1 {
			vAssert(len(locs) == 2 && locs[0].Pos() == uint64(d) && locs[1].Pos() == uint64(d+1000), "hit-locs")
		} else {
			vAssert(len(locs) == 1 && locs[0].Pos() == uint64(d) && locs[0].Field() == "body", "hit-loc")
		}
	}
	p, err := it.Next()
	vAssert(err == nil && p == nil, "end")
	d := []int{n / 2, n - 1, n/2 - 1}[probeChoice]
	it2 := pl.Iterator(true, true, true, nil)
	p, err = it2.Advance(uint64(d))
	vAssert(err == nil && p != nil, "adv-hit")
	vAssert(p.Number() == uint64(d) && p.Frequency() == wantFreq(d) && p.(*Posting).NormUint64() == wantNorm(d), "adv-details")
	if d+1 < n {
		p, err = it2.Next()
		vAssert(err == nil && p != nil && p.Number() == uint64(d+1) && p.Frequency() == wantFreq(d+1), "adv-next")
	}
}
