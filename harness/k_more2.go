package zap

import (
	"bytes"
	"encoding/binary"
	"fmt"

	index "github.com/blevesearch/bleve_index_api"
	"github.com/blevesearch/vellum"
)

func init() {
	vRegister("K9_copystored", K9_copystored)
	vRegister("H06_enum", H06_enum)
	vRegister("K10_dvoffsets", K10_dvoffsets)
}

// K9_copystored: the byte-copy path of the stored-field merge: the block range of a segment is copied as a
// whole and every document's offset is rebased to where the copy starts, for a writer that already holds a
// prefix and for any first new document number.
func K9_copystored() {
	nDocs := 1 + vChoice("nDocs", 3)
	docs, sp := vGenBatchFixed(gCfg{prefix: "", idBase: "d", nDocs: nDocs, wide: -1,
		fields: []gField{{name: "f", terms: []string{"a"}, store: true, fixFreq: true}}})
	var z ZapPlugin
	segI, _, err := z.newWithChunkMode(docs, DefaultChunkMode)
	vAssert(err == nil, "build")
	sb := segI.(*SegmentBase)
	prefix := make([]byte, vChoice("prefix", 4))
	var out bytes.Buffer
	w := NewCountHashWriter(&out)
	_, _ = w.Write(prefix)
	first := uint64(vChoice("first", 3))
	offs := make([]uint64, int(first)+nDocs)
	vAssert(sb.copyStoredDocs(first, offs, w) == nil, "copy")
	// the copied image, re-based, decodes to the same stored values
	img := out.Bytes()
	for d := 0; d < nDocs; d++ {
		o := offs[int(first)+d]
		metaLen, p := lUvarint(img, o)
		dataLen, p2 := lUvarint(img, p)
		_, _, oldN, oldMeta, oldData := sb.getDocStoredOffsets(uint64(d))
		vAssert(p2-o == oldN && metaLen == oldMeta && dataLen == oldData, "block-header")
		oldMetaB, oldDataB := sb.getDocStoredMetaAndCompressed(uint64(d))
		vAssert(vBytesEq(img[p2:p2+metaLen], oldMetaB), "meta-bytes")
		vAssert(vBytesEq(img[p2+metaLen:p2+metaLen+dataLen], oldDataB), "data-bytes")
	}
	vAssert(offs[int(first)] == uint64(len(prefix)), "first-offset")
	_ = sp
}

// H06_enum: the k-way join over dictionary iterators used by every merge: for every assignment of keys
// (including the empty key) to two or three dictionaries, the enumeration is the sorted union, each key once
// per dictionary that has it, in ascending dictionary order, with that dictionary's value.
func H06_enum() {
	alphabet := []string{"", "a", "b"}
	nIt := 2 + vChoice("nIt", 2)
	var itrs []vellum.Iterator
	has := make([][]bool, nIt)
	for i := 0; i < nIt; i++ {
		has[i] = make([]bool, len(alphabet))
		var buf bytes.Buffer
		b, err := vellum.New(&buf, nil)
		vAssert(err == nil, "builder")
		for k, key := range alphabet {
			if vBool(fmt.Sprint("has", i, "_", k)) {
				has[i][k] = true
				vAssert(b.Insert([]byte(key), uint64(100*(i+1)+k+1)) == nil, "insert")
			}
		}
		vAssert(b.Close() == nil, "builder-close")
		fst, err := vellum.Load(buf.Bytes())
		vAssert(err == nil, "load")
		itr, err := fst.Iterator(nil, nil)
		vAssert(err == nil || err == vellum.ErrIteratorDone, "iterator")
		if itr == nil {
			vAssume(false) // the merge only passes iterators that exist
		}
		itrs = append(itrs, itr)
	}
	type tup struct {
		key string
		idx int
		val uint64
	}
	var want []tup
	for k, key := range alphabet {
		for i := 0; i < nIt; i++ {
			if has[i][k] {
				want = append(want, tup{key, i, uint64(100*(i+1) + k + 1)})
			}
		}
	}
	e, err := newEnumerator(itrs)
	var got []tup
	for err == nil {
		k, i, v := e.Current()
		got = append(got, tup{string(k), i, v})
		vAssert(len(got) <= 16, "runaway")
		// the peek used to compute cardinalities lists exactly the dictionaries holding the current key
		idxs, vals := e.GetLowIdxsAndValues()
		n := 0
		for ki, key := range alphabet {
			if key == string(k) {
				for j := 0; j < nIt; j++ {
					if has[j][ki] {
						vAssert(n < len(idxs) && idxs[n] == j && vals[n] == uint64(100*(j+1)+ki+1), "low-idxs")
						n++
					}
				}
			}
		}
		vAssert(n == len(idxs), "low-idxs-n")
		err = e.Next()
	}
	vAssert(err == vellum.ErrIteratorDone, "done")
	vAssert(len(got) == len(want), "n")
	for i := range want {
		vAssert(got[i] == want[i], "tuple")
	}
	vAssert(e.Close() == nil, "close")
}

var _ index.Document

// K10_dvoffsets: the doc-value offset pair at the head of a field's section, as read by the opened-file
// loader (getSectionDvOffsets) and by the in-memory loader's rule (two uvarints), for all 64-bit values:
// both offsets come back as written, whatever their first byte is; a field without a section reports
// "not uninverted".
func K10_dvoffsets() {
	a, b := vU64("start"), vU64("end")
	buf := make([]byte, 1+2*binary.MaxVarintLen64+binary.MaxVarintLen64)
	n := binary.PutUvarint(buf[1:], a)
	binary.PutUvarint(buf[1+n:], b)
	s := &Segment{}
	s.mem = buf
	s.fieldsSectionsMap = []map[uint16]uint64{{SectionInvertedTextIndex: 1}, {SectionInvertedTextIndex: 0}}
	st, en, _, err := s.getSectionDvOffsets(0, SectionInvertedTextIndex)
	vAssert(err == nil, "err")
	vAssert(vAnd(st == a, en == b), "offsets")
	st, en, _, err = s.getSectionDvOffsets(1, SectionInvertedTextIndex)
	vAssert(err == nil && st == fieldNotUninverted && en == fieldNotUninverted, "no-section")
	vObserve("start", st)
}
