package zap

import (
	"bytes"
	"fmt"

	"github.com/RoaringBitmap/roaring/v2"
)

func init() {
	vRegister("K5_synonym", K5_synonym)
	vRegister("K6_boundaries", K6_boundaries)
	vRegister("K8_storedmeta", K8_storedmeta)
	vRegister("H01_coder", H01_coder)
	vRegister("H03_coder", H03_coder)
	vRegister("H08_tmp", H08_tmp)
	vRegister("H06_locids", H06_locids)
}

// K5_synonym: the (synonym id, document) packing round-trips and orders by (id, doc), for all 32-bit values.
func K5_synonym() {
	sid, doc := vU32("sid"), vU32("doc")
	c := encodeSynonym(sid, doc)
	s2, d2 := decodeSynonym(c)
	vAssert(vAnd(s2 == sid, d2 == doc), "roundtrip")
	sidB, docB := vU32("sidB"), vU32("docB")
	cB := encodeSynonym(sidB, docB)
	less := vOr(sid < sidB, vAnd(sid == sidB, doc < docB))
	vAssert(less == (c < cB), "order")
	vAssert((c == cB) == vAnd(sid == sidB, doc == docB), "injective")
	vObserve("code", c)
}

// K6_boundaries: length tables become cumulative end offsets; chunk i spans [sum_{j<i}, sum_{j<=i}).
func K6_boundaries() {
	n := 1 + vChoice("n", 5)
	lens := make([]uint64, n)
	orig := make([]uint64, n)
	var sum uint64
	for i := range lens {
		lens[i] = vU64(fmt.Sprint("len", i))
		vAssume(lens[i] < 1<<40) // no 64-bit overflow of the running sum
		orig[i] = lens[i]
	}
	ends := modifyLengthsToEndOffsets(lens)
	vAssert(len(ends) == n, "len")
	for i := 0; i < n; i++ {
		s, e := readChunkBoundary(i, ends)
		vAssert(s == sum, "start")
		sum += orig[i]
		vAssert(e == sum, "end")
		vAssert(e-s == orig[i], "length")
	}
	// doc-value meta headers use the same rule
	hdr := make([]MetaData, n)
	var run uint64
	for i := range hdr {
		run += orig[i]
		hdr[i] = MetaData{DocNum: uint64(i), DocDvOffset: run}
	}
	run = 0
	for i := range hdr {
		s, e := ReadDocValueBoundary(i, hdr)
		vAssert(s == run, "dv-start")
		run += orig[i]
		vAssert(e == run, "dv-end")
	}
}

// K8_storedmeta: the stored-value meta records written by persistStoredFieldValues, for symbolic field ids,
// type bytes and array positions, decode (by the independent layout rule) to what went in.
func K8_storedmeta() {
	nums := &gen{cfg: gCfg{wide: vChoice("wide", 4)}} // one array position at a time is full width
	nv := 1 + vChoice("nv", 2)
	vals := make([][]byte, nv)
	typs := make([]byte, nv)
	poss := make([][]uint64, nv)
	for i := 0; i < nv; i++ {
		vals[i] = make([]byte, (i+1)%3)
		for j := range vals[i] {
			vals[i][j] = byte(16*i + j + 1)
		}
		typs[i] = vU8(fmt.Sprint("typ", i))
		np := vChoice(fmt.Sprint("np", i), 3)
		for j := 0; j < np; j++ {
			poss[i] = append(poss[i], nums.num(fmt.Sprint("ap", i, "_", j), ^uint64(0)))
		}
	}
	fieldID := vU16("fieldID")
	start := vChoice("start", 3)
	var meta bytes.Buffer
	varBuf := make([]byte, 10)
	enc := func(v uint64) (int, error) {
		n := 0
		for v >= 0x80 {
			varBuf[n] = byte(v) | 0x80
			v >>= 7
			n++
		}
		varBuf[n] = byte(v)
		return meta.Write(varBuf[:n+1])
	}
	curr, data, err := persistStoredFieldValues(int(fieldID), vals, typs, poss, start, enc, nil)
	vAssert(err == nil, "err")
	b := meta.Bytes()
	off := uint64(0)
	want := start
	var all []byte
	for i := 0; i < nv; i++ {
		var f, t, st, ln, np uint64
		f, off = lUvarint(b, off)
		t, off = lUvarint(b, off)
		st, off = lUvarint(b, off)
		ln, off = lUvarint(b, off)
		np, off = lUvarint(b, off)
		vAssert(f == uint64(fieldID), "field")
		vAssert(t == uint64(typs[i]), "type")
		vAssert(st == uint64(want), "start")
		vAssert(ln == uint64(len(vals[i])), "len")
		vAssert(np == uint64(len(poss[i])), "npos")
		for j := range poss[i] {
			var a uint64
			a, off = lUvarint(b, off)
			vAssert(a == poss[i][j], "pos")
		}
		want += len(vals[i])
		all = append(all, vals[i]...)
	}
	vAssert(off == uint64(len(b)), "consumed")
	vAssert(curr == want, "curr")
	vAssert(vBytesEq(data, all), "data")
}

// H01_coder: chunked int stream: every value written for a document is read back from the chunk the reader
// computes for that document, for symbolic chunk sizes, document numbers and values, including the
// Reset + SetChunkSize reuse the writers do per term.
func H01_coder() {
	n := 1 + vChoice("ndocs", vParam("maxDocs", 2))
	nums := &gen{cfg: gCfg{wide: vChoice("wide", 2*n+1)}} // one value at a time is full width
	maxDoc := uint64(3)
	docs := make([]uint64, n)
	vals := make([][2]uint64, n)
	for i := range docs {
		docs[i] = uint64(vChoice(fmt.Sprint("d", i), 4))
		vals[i] = [2]uint64{nums.num(fmt.Sprint("a", i), ^uint64(0)), nums.num(fmt.Sprint("b", i), ^uint64(0))}
		vAssume(docs[i] <= maxDoc)
		if i > 0 {
			vAssume(docs[i] > docs[i-1])
		}
	}
	sizes := []uint64{vU64("cs1"), vU64("cs2")}
	vAssume(sizes[0] >= 1 && sizes[1] >= 1)
	c := newChunkedIntCoder(sizes[0], maxDoc)
	for round, cs := range sizes {
		if round > 0 {
			c.Reset()
			c.SetChunkSize(cs, maxDoc)
		}
		for i := range docs {
			vAssert(c.Add(docs[i], vals[i][0], vals[i][1]) == nil, "add")
		}
		c.Close()
		var out bytes.Buffer
		w := NewCountHashWriter(&out)
		_, _ = w.Write([]byte{0xEE}) // offset 0 is reserved
		off, _, err := c.writeAt(w)
		vAssert(err == nil, "write")
		buf := append(out.Bytes(), make([]byte, 16)...)
		d := newChunkedIntDecoder(buf, off, nil)
		last := ^uint64(0)
		for i := range docs {
			ch := docs[i] / cs
			vAssert(ch < uint64(len(d.chunkOffsets)), "chunk-in-table")
			if ch != last {
				vAssert(d.loadChunk(int(ch)) == nil, "load")
				last = ch
			}
			a, err := d.readUvarint()
			vAssert(err == nil, "read-a")
			b, err := d.readUvarint()
			vAssert(err == nil, "read-b")
			vAssert(vAnd(a == vals[i][0], b == vals[i][1]), "values")
		}
	}
}

// H03_coder: chunked content (doc value) coder against the doc-value reader's chunk loading, symbolic chunk size.
func H03_coder() {
	n := 1 + vChoice("ndocs", 3)
	maxDoc := uint64(3)
	cs := vU64("cs")
	vAssume(cs >= 1 && cs <= 1024)
	var out bytes.Buffer
	w := NewCountHashWriter(&out)
	_, _ = w.Write([]byte{0xEE})
	c := newChunkedContentCoder(cs, maxDoc, w, false)
	docs := make([]uint64, n)
	for i := range docs {
		docs[i] = vU64(fmt.Sprint("d", i))
		vAssume(docs[i] <= maxDoc)
		if i > 0 {
			vAssume(docs[i] > docs[i-1])
		}
		vAssert(c.Add(docs[i], []byte{byte('a' + i), termSeparator}) == nil, "add")
	}
	vAssert(c.Close() == nil, "close")
	start := uint64(w.Count())
	_, err := c.Write()
	vAssert(err == nil, "write")
	end := uint64(w.Count())
	sb := &SegmentBase{mem: out.Bytes(), numDocs: maxDoc + 1, fieldsInv: []string{"_id", "f"}, fieldsMap: map[string]uint16{"_id": 1, "f": 2}}
	saved := LegacyChunkMode
	defer func() { LegacyChunkMode = saved }()
	LegacyChunkMode = uint32(cs)
	dvr, err := sb.loadFieldDocValueReader("f", start, end)
	vAssert(err == nil && dvr != nil, "reader")
	for i := range docs {
		ch := docs[i] / cs
		vAssert(dvr.loadDvChunk(ch, sb) == nil, "load")
		var got []byte
		err := dvr.visitDocValues(docs[i], func(field string, term []byte) { got = append(got, term...) })
		vAssert(err == nil, "visit")
		vAssert(len(got) == 1 && got[0] == byte('a'+i), "term")
	}
}

// H08_tmp: one PostingsList object decodes a sequence of dictionary entries of either kind (single-hit value
// with symbolic doc / norm, or a general record); after each read Count is that entry's cardinality.
func H08_tmp() {
	// a small memory image with two general records: cardinality 2 and cardinality 3
	var out bytes.Buffer
	w := NewCountHashWriter(&out)
	_, _ = w.Write([]byte{0xEE})
	buf := make([]byte, 10)
	mk := func(docs ...uint32) uint64 {
		bm := roaring.New()
		for _, d := range docs {
			bm.Add(d)
		}
		tf := newChunkedIntCoder(1024, 3)
		lc := newChunkedIntCoder(1024, 3)
		for _, d := range docs {
			_ = tf.Add(uint64(d), encodeFreqHasLocs(1, false), 1)
		}
		tf.Close()
		lc.Close()
		off, err := writePostings(bm, tf, lc, nil, w, buf)
		vAssert(err == nil && off > 0, "write-postings")
		return off
	}
	general := []uint64{mk(0, 2), mk(0, 1, 3)}
	cards := []uint64{2, 3}
	sb := &SegmentBase{mem: append(out.Bytes(), make([]byte, 16)...), numDocs: 4, chunkMode: 1024}
	d := &Dictionary{sb: sb}
	var tmp PostingsList
	for i := 0; i < 1+vChoice("n", 3); i++ {
		switch vChoice(fmt.Sprint("kind", i), 3) {
		case 0:
			doc, norm := vU64(fmt.Sprint("doc", i)), vU64(fmt.Sprint("norm", i))
			vAssume(doc <= mask31Bits)
			vAssume(norm >= 1 && norm <= mask31Bits)
			vAssert(tmp.read(FSTValEncode1Hit(doc, norm), d) == nil, "read-1hit")
			vAssert(tmp.Count() == 1, "count-1hit")
		default:
			g := vChoice(fmt.Sprint("g", i), 2)
			vAssert(tmp.read(general[g], d) == nil, "read-general")
			vAssert(tmp.Count() == cards[g], "count-general")
		}
	}
}

// H06_locids: the re-encoding merge path translates location field ids through the merged field table; for every
// 16-bit id the size prefix it writes equals the bytes of the location records that follow, and the id read
// back is the translated one.
func H06_locids() {
	docs, _ := vGenBatchFixed(gCfg{prefix: "", idBase: "d", nDocs: 2, wide: -1, noFx: true,
		fields: []gField{{name: "f", terms: []string{"a"}, tv: true, maxLocs: 1, fixLocs: true}}})
	var z ZapPlugin
	segI, _, err := z.newWithChunkMode(docs, DefaultChunkMode)
	vAssert(err == nil, "build")
	sb := segI.(*SegmentBase)
	d, err := sb.dictionary("f")
	vAssert(err == nil && d != nil, "dict")
	pl, err := d.postingsList([]byte("a"), nil, nil)
	vAssert(err == nil, "pl")
	it := pl.iterator(true, true, true, nil)
	id := vU16("mergedFieldID")
	vAssume(id < 0xffff)
	fieldsMap := map[string]uint16{"_id": 1, "f": id + 1}
	tf := newChunkedIntCoder(1024, 1)
	lc := newChunkedIntCoder(1024, 1)
	bm := roaring.New()
	_, _, _, _, err = mergeTermFreqNormLocs(fieldsMap, []byte("a"), it, []uint64{0, 1}, bm, tf, lc, nil)
	vAssert(err == nil, "merge-locs")
	tf.Close()
	lc.Close()
	var out bytes.Buffer
	w := NewCountHashWriter(&out)
	_, _ = w.Write([]byte{0xEE})
	off, _, err := lc.writeAt(w)
	vAssert(err == nil && off == 1, "write")
	b := append(out.Bytes(), make([]byte, 16)...)
	ends, data := lIntStream(b, off)
	vAssert(len(ends) == 1, "one-chunk")
	p := data
	for hit := 0; hit < 2; hit++ {
		var nb uint64
		nb, p = lUvarint(b, p)
		end := p + nb
		var fid uint64
		fid, p = lUvarint(b, p)
		vAssert(fid == uint64(id), "translated-id")
		for k := 0; k < 3; k++ { // pos, start, end
			_, p = lUvarint(b, p)
		}
		var nap uint64
		nap, p = lUvarint(b, p)
		vAssert(nap == 0, "no-array-positions")
		vAssert(p == end, "size-prefix")
	}
	vAssert(p == data+ends[0], "stream-end")
}
