package zap

import (
	segment "github.com/blevesearch/scorch_segment_api/v2"
)

func init() {
	vRegister("H02_stored", H02_stored)
	vRegister("H02_ids", H02_ids)
}

// H02_stored: stored fields, ids, id lookup, Count, Fields, early-stopping visitors.
func H02_stored() {
	wide := -1
	if vParam("wide", 1) == 1 {
		wide = vChoice("wide", 6) - 1
	}
	cfg := gCfg{prefix: "", idBase: "d", nDocs: vChoice("nDocs", 1+vParam("maxDocs", 2)), wide: wide, maxAP: vParam("maxAP", 2), symTyp: true,
		fields: []gField{
			{name: "s", terms: []string{"a"}, store: true, multi: true, allTerm: true},
			{name: "b", terms: []string{"x"}, store: true, allTerm: true},
		}}
	if vParam("ids", 1) == 1 {
		// ids of different lengths: a longer id that sorts before the largest key, and one that is a prefix of another
		cfg.ids = [][]string{{"d9", "d10", "d"}, {"x", "xx", "xxx"}}[vChoice("ids", 2)]
	}
	docs, sp := vGenBatch(cfg)
	var z ZapPlugin
	seg, _, err := z.newWithChunkMode(docs, DefaultChunkMode)
	vAssert(err == nil, "build")
	sCheckStored(seg, sp, "")
	sCheckDocNumbers(seg, sp, "")
	// a visitor that stops after k callbacks sees exactly k values (at least one callback happens: _id)
	for d, ds := range sp.docs {
		total := 1 + len(ds.stored)
		stop := 1 + vChoice("stop", total)
		n := 0
		err := seg.VisitStoredFields(uint64(d), func(string, byte, []byte, []uint64) bool { n++; return n < stop })
		vAssert(err == nil, "stop-err")
		vAssert(n == stop, "stop-exact")
	}
}

// H02_ids: DocNumbers / DocID / Count for external ids of different lengths and prefix relations (a longer id
// that sorts before the largest key, ids that are prefixes of each other, a one-byte id), on built and
// re-opened segments; requests containing absent ids around the largest key, the empty id and duplicates.
func H02_ids() {
	sets := [][]string{{"d9", "d10", "d"}, {"x", "xx", "xxx"}, {"b", "a\xffz", "ab"}}
	ids := sets[vChoice("ids", len(sets))]
	n := 1 + vChoice("nDocs", 3)
	docs, sp := vGenBatchFixed(gCfg{prefix: "", idBase: "q", nDocs: n, wide: -1, ids: ids,
		fields: []gField{{name: "f", terms: []string{"a"}, fixFreq: true, store: true}}})
	var z ZapPlugin
	segI, _, err := z.newWithChunkMode(docs, DefaultChunkMode)
	vAssert(err == nil, "build")
	var seg segment.Segment = segI
	if vBool("reopen") {
		vAssert(segI.(*SegmentBase).Persist(vP("ids.zap")) == nil, "persist")
		seg, err = z.Open(vP("ids.zap"))
		vAssert(err == nil, "open")
	}
	sCheckStored(seg, sp, "")
	sCheckDocNumbers(seg, sp, "")
	// every candidate id alone, and all of them in one request (with a duplicate)
	cands := append(append([]string{}, ids...), "", "d", "d1", "d99", "d9\x00", "xxxx", "w", "y", "a", "b\x00")
	present := map[string]int{}
	for d := 0; d < n; d++ {
		present[ids[d]] = d
	}
	total := 0
	for _, c := range cands {
		bm, err := seg.DocNumbers([]string{c})
		vAssert(err == nil && bm != nil, "one-err")
		if d, ok := present[c]; ok {
			vAssert(bm.GetCardinality() == 1 && bm.Contains(uint32(d)), "one-present")
		} else {
			vAssert(bm.GetCardinality() == 0, "one-absent")
		}
	}
	for range present {
		total++
	}
	bm, err := seg.DocNumbers(append(append([]string{}, cands...), ids[0]))
	vAssert(err == nil && bm.GetCardinality() == uint64(total), "all-card")
}
