package zap

func init() {
	vRegister("H02_stored", H02_stored)
}

// H02_stored: stored fields, ids, id lookup, Count, Fields, early-stopping visitors.
func H02_stored() {
	wide := -1
	if vParam("wide", 1) == 1 {
		wide = vChoice("wide", 6) - 1
	}
	cfg := gCfg{prefix: "", idBase: "d", nDocs: vChoice("nDocs", 1+vParam("maxDocs", 2)), wide: wide, maxAP: vParam("maxAP", 2), symTyp: true,
		fields: []gField{
			{name: "s", terms: []string{"a"}, store: true, multi: true, allTerm: true},
			{name: "b", terms: []string{"x"}, store: true, allTerm: true},
		}}
	docs, sp := vGenBatch(cfg)
	var z ZapPlugin
	seg, _, err := z.newWithChunkMode(docs, DefaultChunkMode)
	vAssert(err == nil, "build")
	sCheckStored(seg, sp, "")
	sCheckDocNumbers(seg, sp, "")
	// a visitor that stops after k callbacks sees exactly k values (at least one callback happens: _id)
	for d, ds := range sp.docs {
		total := 1 + len(ds.stored)
		stop := 1 + vChoice("stop", total)
		n := 0
		err := seg.VisitStoredFields(uint64(d), func(string, byte, []byte, []uint64) bool { n++; return n < stop })
		vAssert(err == nil, "stop-err")
		vAssert(n == stop, "stop-exact")
	}
}
