package zap

import (
	"fmt"

	"github.com/RoaringBitmap/roaring/v2"
	index "github.com/blevesearch/bleve_index_api"
	segment "github.com/blevesearch/scorch_segment_api/v2"
)

func init() {
	vRegister("H11_pool", H11_pool)
	vRegister("H11_effects", H11_effects)
}

func vReaderSegment(reopen bool) (segment.Segment, *sSpec) {
	cfg := gCfg{prefix: "", idBase: "d", nDocs: 2, wide: -1,
		fields: []gField{
			{name: "f", terms: []string{"a", "b"}, tv: true, maxLocs: 0, dv: true, store: true, always: true, allTerm: true, fixFreq: true},
			{name: "g", terms: []string{"c"}, store: true, always: true, allTerm: true, fixFreq: true},
		}}
	// concrete shape: stored flags on
	docs, sp := vGenBatchFixed(cfg)
	var z ZapPlugin
	segI, _, err := z.newWithChunkMode(docs, DefaultChunkMode)
	vAssert(err == nil, "build")
	if !reopen {
		return segI, sp
	}
	vAssert(segI.(*SegmentBase).Persist(vP("r.zap")) == nil, "persist")
	o, err := z.Open(vP("r.zap"))
	vAssert(err == nil, "open")
	return o, sp
}

// vReaderOp runs one reader operation chosen symbolically.
func vReaderOp(seg segment.Segment, sp *sSpec, tag string) {
	switch vChoice(tag+"op", 8) {
	case 0: // stored-field visit that stops after a symbolic number of callbacks
		d := vChoice(tag+"doc", 3)
		stop := 1 + vChoice(tag+"stop", 3)
		n := 0
		err := seg.VisitStoredFields(uint64(d), func(string, byte, []byte, []uint64) bool { n++; return n < stop })
		vAssert(err == nil, "visit-err")
	case 1:
		_, err := seg.DocID(uint64(vChoice(tag+"doc", 3)))
		vAssert(err == nil, "docid-err")
	case 2:
		bm, err := seg.DocNumbers([]string{"d0", "zz", "d1"})
		vAssert(err == nil && bm.GetCardinality() == 2, "docnumbers")
	case 3:
		sCheckPostings(seg, sp, "p-")
	case 4:
		sCheckDocValues(seg, sp, []int{1, 0}, "dv-")
	case 5: // the segment as input of a merge (byte-copy path)
		var z ZapPlugin
		_, _, err := z.Merge([]segment.Segment{seg}, []*roaring.Bitmap{nil}, vP(tag+"m.zap"), nil, nil)
		vAssert(err == nil, "merge-err")
	case 7: // a lookup that misses, then a lookup that hits with the objects of the miss passed back as preallocation
		d, err := seg.Dictionary("f")
		vAssert(err == nil, "dict")
		pl, err := d.PostingsList([]byte("nosuchterm"), nil, nil)
		vAssert(err == nil && pl.Count() == 0, "miss-empty")
		it := pl.Iterator(true, true, true, nil)
		p, err := it.Next()
		vAssert(err == nil && p == nil, "miss-iter-empty")
		pl2, err := d.PostingsList([]byte("a"), nil, pl)
		vAssert(err == nil && pl2.Count() == 2, "hit-count")
		it2 := pl2.Iterator(true, true, true, it)
		p, err = it2.Next()
		vAssert(err == nil && p != nil && p.Number() == 0, "hit-first")
	case 6: // twice as input of one merge, with deletions (per-document path for both inputs)
		var z ZapPlugin
		d0, d1 := roaring.New(), roaring.New()
		d0.Add(0)
		d1.Add(1)
		_, _, err := z.Merge([]segment.Segment{seg, seg}, []*roaring.Bitmap{d0, d1}, vP(tag+"m2.zap"), nil, nil)
		vAssert(err == nil, "merge2-err")
	}
}

// H11_pool: after any two reader operations, the scratch-object pool never hands one object to two owners.
func H11_pool() {
	vPoolDeterministic()
	seg, sp := vReaderSegment(vBool("reopen"))
	vReaderOp(seg, sp, "a")
	vReaderOp(seg, sp, "b")
	g1 := visitDocumentCtxPool.Get().(*visitDocumentCtx)
	g2 := visitDocumentCtxPool.Get().(*visitDocumentCtx)
	vAssert(g1 != g2, "two-owners")
	vSentinelsIntact()
}

// vSentinelsIntact: the package-level "empty" objects that every reader may be handed are still empty.
func vSentinelsIntact() {
	vAssert(emptyPostingsList.postings == nil && emptyPostingsList.sb == nil && emptyPostingsList.except == nil && emptyPostingsList.normBits1Hit == 0, "sentinel-postingslist")
	vAssert(emptyPostingsIterator.postings == nil && emptyPostingsIterator.ActualBM == nil && emptyPostingsIterator.all == nil, "sentinel-postingsiterator")
	vAssert(emptyDictionary.fst == nil && emptyDictionary.sb == nil, "sentinel-dictionary")
	vAssert(emptyDictionaryIterator.itr == nil && emptyDictionaryIterator.d == nil, "sentinel-dictionaryiterator")
	vAssert(emptySynonymsList.synonyms == nil && emptySynonymsIterator.ActualBM == nil && emptyThesaurus.fst == nil, "sentinel-thesaurus")
}

// H11_effects: every reader operation writes only to memory it owns, to guarded state with the lock held,
// or through atomics; what it answers is the reference answer (also on a warm cache).
func H11_effects() {
	seg, sp := vReaderSegment(vBool("reopen"))
	vShare(seg)
	vReaderOp(seg, sp, "a")
	vReaderOp(seg, sp, "b")
	vUnshare()
	sCheckStored(seg, sp, "after-")
	vSentinelsIntact()
}

// vGenBatchFixed generates a batch with every presence / stored bit set (no symbolic shape).
func vGenBatchFixed(cfg gCfg) ([]index.Document, *sSpec) {
	for i := range cfg.fields {
		cfg.fields[i].always = true
		cfg.fields[i].allTerm = true
	}
	cfg.storeAll = true
	return vGenBatch(cfg)
}

var _ = fmt.Sprint
