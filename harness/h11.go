package zap

import (
	"fmt"

	"github.com/RoaringBitmap/roaring/v2"
	index "github.com/blevesearch/bleve_index_api"
	segment "github.com/blevesearch/scorch_segment_api/v2"
)

func init() {
	vRegister("H11_pool", H11_pool)
	vRegister("H11_big", H11_big)
	vRegister("H11_effects", H11_effects)
	vRegister("H11_syn", H11_syn)
	vRegister("H10_effects", H10_effects)
}

func vReaderSegment(reopen bool) (segment.Segment, *sSpec) {
	cfg := gCfg{prefix: "", idBase: "d", nDocs: 2, wide: -1,
		fields: []gField{
			{name: "f", terms: []string{"a", "b"}, tv: true, maxLocs: 0, dv: true, store: true, always: true, allTerm: true, fixFreq: true},
			{name: "g", terms: []string{"c"}, store: true, always: true, allTerm: true, fixFreq: true},
		}}
	// concrete shape: stored flags on
	docs, sp := vGenBatchFixed(cfg)
	var z ZapPlugin
	segI, _, err := z.newWithChunkMode(docs, DefaultChunkMode)
	vAssert(err == nil, "build")
	if !reopen {
		return segI, sp
	}
	vAssert(segI.(*SegmentBase).Persist(vP("r.zap")) == nil, "persist")
	o, err := z.Open(vP("r.zap"))
	vAssert(err == nil, "open")
	return o, sp
}

// vReaderOp runs one reader operation chosen symbolically.
func vReaderOp(seg segment.Segment, sp *sSpec, tag string) {
	switch vChoice(tag+"op", 8) {
	case 0: // stored-field visit that stops after a symbolic number of callbacks
		d := vChoice(tag+"doc", 3)
		stop := 1 + vChoice(tag+"stop", 3)
		n := 0
		err := seg.VisitStoredFields(uint64(d), func(string, byte, []byte, []uint64) bool { n++; return n < stop })
		vAssert(err == nil, "visit-err")
	case 1:
		_, err := seg.DocID(uint64(vChoice(tag+"doc", 3)))
		vAssert(err == nil, "docid-err")
	case 2:
		bm, err := seg.DocNumbers([]string{"d0", "zz", "d1"})
		vAssert(err == nil && bm.GetCardinality() == 2, "docnumbers")
	case 3:
		sCheckPostings(seg, sp, "p-")
	case 4:
		sCheckDocValues(seg, sp, []int{1, 0}, "dv-")
	case 5: // the segment as input of a merge (byte-copy path)
		var z ZapPlugin
		_, _, err := z.Merge([]segment.Segment{seg}, []*roaring.Bitmap{nil}, vP(tag+"m.zap"), nil, nil)
		vAssert(err == nil, "merge-err")
	case 7: // a lookup that misses, then a lookup that hits with the objects of the miss passed back as preallocation
		d, err := seg.Dictionary("f")
		vAssert(err == nil, "dict")
		pl, err := d.PostingsList([]byte("nosuchterm"), nil, nil)
		vAssert(err == nil && pl.Count() == 0, "miss-empty")
		it := pl.Iterator(true, true, true, nil)
		p, err := it.Next()
		vAssert(err == nil && p == nil, "miss-iter-empty")
		pl2, err := d.PostingsList([]byte("a"), nil, pl)
		vAssert(err == nil && pl2.Count() == 2, "hit-count")
		it2 := pl2.Iterator(true, true, true, it)
		p, err = it2.Next()
		vAssert(err == nil && p != nil && p.Number() == 0, "hit-first")
	case 6: // twice as input of one merge, with deletions (per-document path for both inputs)
		var z ZapPlugin
		d0, d1 := roaring.New(), roaring.New()
		d0.Add(0)
		d1.Add(1)
		_, _, err := z.Merge([]segment.Segment{seg, seg}, []*roaring.Bitmap{d0, d1}, vP(tag+"m2.zap"), nil, nil)
		vAssert(err == nil, "merge2-err")
	}
}

// H11_pool: after any two reader operations, the scratch-object pool never hands one object to two owners.
func H11_pool() {
	vPoolDeterministic()
	seg, sp := vReaderSegment(vBool("reopen"))
	vReaderOp(seg, sp, "a")
	vReaderOp(seg, sp, "b")
	g1 := visitDocumentCtxPool.Get().(*visitDocumentCtx)
	g2 := visitDocumentCtxPool.Get().(*visitDocumentCtx)
	vAssert(g1 != g2, "two-owners")
	vSentinelsIntact()
}

// vSentinelsIntact: the package-level "empty" objects that every reader may be handed are still empty.
func vSentinelsIntact() {
	vAssert(emptyPostingsList.postings == nil && emptyPostingsList.sb == nil && emptyPostingsList.except == nil && emptyPostingsList.normBits1Hit == 0, "sentinel-postingslist")
	vAssert(emptyPostingsIterator.postings == nil && emptyPostingsIterator.ActualBM == nil && emptyPostingsIterator.all == nil, "sentinel-postingsiterator")
	vAssert(emptyDictionary.fst == nil && emptyDictionary.sb == nil, "sentinel-dictionary")
	vAssert(emptyDictionaryIterator.itr == nil && emptyDictionaryIterator.d == nil, "sentinel-dictionaryiterator")
	vAssert(emptySynonymsList.synonyms == nil && emptySynonymsIterator.ActualBM == nil && emptyThesaurus.fst == nil, "sentinel-thesaurus")
}

// H11_effects: every reader operation writes only to memory it owns, to guarded state with the lock held,
// or through atomics; what it answers is the reference answer (also on a warm cache).
func H11_effects() {
	seg, sp := vReaderSegment(vBool("reopen"))
	if !vSymbolic() {
		// native replay: the two operations run in several goroutines at once on the fresh (cold) segment;
		// under the race detector a lockset violation found by the engine shows up as a data race
		done := make(chan struct{}, 4)
		for g := 0; g < 4; g++ {
			go func() {
				defer func() { done <- struct{}{} }()
				for i := 0; i < 20; i++ {
					vReaderOp(seg, sp, "a")
					vReaderOp(seg, sp, "b")
				}
			}()
		}
		for g := 0; g < 4; g++ {
			<-done
		}
		vSentinelsIntact()
		return
	}
	vShare(seg)
	sbase, ok := seg.(*SegmentBase)
	if !ok {
		sbase = &seg.(*Segment).SegmentBase
	}
	vGuardMap(sbase.fieldFSTs, &sbase.m)
	vReaderOp(seg, sp, "a")
	vReaderOp(seg, sp, "b")
	vUnshare()
	sCheckStored(seg, sp, "after-")
	vSentinelsIntact()
}

// vGenBatchFixed generates a batch with every presence / stored bit set (no symbolic shape).
func vGenBatchFixed(cfg gCfg) ([]index.Document, *sSpec) {
	for i := range cfg.fields {
		cfg.fields[i].always = true
		cfg.fields[i].allTerm = true
	}
	cfg.storeAll = true
	return vGenBatch(cfg)
}

var _ = fmt.Sprint

// H11_syn: thesaurus lookups (cold and warm cache) write only under the cache's lock and read it only with
// the lock held; a warm lookup answers like the cold one.
func H11_syn() {
	docs, sp := vGenSynBatchFixed()
	var z ZapPlugin
	segI, _, err := z.newWithChunkMode(docs, DefaultChunkMode)
	vAssert(err == nil, "build")
	var seg segment.Segment = segI
	if vBool("reopen") {
		vAssert(segI.(*SegmentBase).Persist(vP("s.zap")) == nil, "persist")
		seg, err = z.Open(vP("s.zap"))
		vAssert(err == nil, "open")
	}
	if !vSymbolic() {
		done := make(chan struct{}, 4)
		for g := 0; g < 4; g++ {
			go func() {
				defer func() { done <- struct{}{} }()
				for i := 0; i < 10; i++ {
					sCheckThesauri(seg, sp, nil, nil, "n-")
				}
			}()
		}
		for g := 0; g < 4; g++ {
			<-done
		}
		return
	}
	sbase, ok := seg.(*SegmentBase)
	if !ok {
		sbase = &seg.(*Segment).SegmentBase
	}
	vShare(seg)
	vGuardMap(sbase.synIndexCache.cache, &sbase.synIndexCache.m)
	vGuardMap(sbase.fieldFSTs, &sbase.m)
	sCheckThesauri(seg, sp, nil, nil, "cold-")
	sCheckThesauri(seg, sp, nil, nil, "warm-")
	vUnshare()
}

// vGenSynBatchFixed: one ordinary and two synonym documents with a fixed shape.
func vGenSynBatchFixed() ([]index.Document, *sSynSpec) {
	sp := &sSynSpec{pairs: map[string]map[string][]sSynPair{}}
	docs := []index.Document{
		&vDoc{id: "o", fields: []index.Field{vIDField("o"), vTextField("body", 2, []vTerm{{term: "w", freq: 1}, {term: "x", freq: 1}}, index.IndexField, nil, nil, 't')}},
		&vSynDoc{vDoc{id: "s0", fields: []index.Field{vIDField("s0"), &vSynField{name: "t1", terms: []string{"", "x"}, syns: [][]string{{"p"}, {"p", "q"}}}}}},
		&vSynDoc{vDoc{id: "s1", fields: []index.Field{vIDField("s1"), &vSynField{name: "t2", terms: []string{"x"}, syns: [][]string{{"q"}}}}}},
	}
	sp.ids = []string{"o", "s0", "s1"}
	sp.nDocs = 3
	sp.add("t1", "", "p", 1)
	sp.add("t1", "x", "p", 1)
	sp.add("t1", "x", "q", 1)
	sp.add("t2", "x", "q", 2)
	return docs, sp
}

// H10_effects (reduction R1 for concurrent builds): a build writes no package-level state (outside the pool,
// which is its own synchronised object): builds in other goroutines cannot influence it.
func H10_effects() {
	var z ZapPlugin
	mk := func(prefix string) []index.Document {
		d, _ := vGenBatchFixed(gCfg{prefix: prefix, idBase: prefix, nDocs: 2, wide: -1,
			fields: []gField{{name: "f", terms: []string{"a", "b"}, tv: true, maxLocs: 1, fixLocs: true, dv: true, store: true, fixFreq: true}}})
		return d
	}
	if !vSymbolic() {
		// native replay: builds of different batches run in several goroutines at once and each result is
		// checked against its own batch; under the race detector an effect violation found by the engine
		// (a build storing into package-level state) shows up as a data race
		errs := make(chan string, 64)
		done := make(chan struct{}, 4)
		var batches [4][]index.Document
		var specs [4]*sSpec
		for g := 0; g < 4; g++ {
			pre := []string{"p", "q", "r", "s"}[g]
			for d := 0; d < 2+g; d++ {
				for fi := 0; fi < 2; fi++ {
					vPin(fmt.Sprint(pre, "len", d, "_", fi, "_0"), uint64(1+d+fi)) // (analysed lengths are positive)
				}
			}
			batches[g], specs[g] = vGenBatchFixed(gCfg{prefix: pre, idBase: pre, nDocs: 2 + g, wide: -1, maxAP: 1, fixAP: true,
				fields: []gField{{name: "f", terms: []string{"a", pre}, tv: true, maxLocs: 1, fixLocs: true, dv: true, store: true, fixFreq: true},
					{name: "g" + pre, terms: []string{"c"}, store: true, fixFreq: true}}})
		}
		for g := 0; g < 4; g++ {
			go func(g int) {
				defer func() { done <- struct{}{} }()
				defer func() {
					if r := recover(); r != nil {
						errs <- fmt.Sprint(r)
					}
				}()
				for i := 0; i < 30; i++ {
					var zz ZapPlugin
					seg, _, err := zz.newWithChunkMode(batches[g], DefaultChunkMode)
					if err != nil {
						errs <- "build error " + err.Error()
						return
					}
					sCheckStored(seg, specs[g], "conc-")
					sCheckPostings(seg, specs[g], "conc-")
				}
			}(g)
		}
		for g := 0; g < 4; g++ {
			<-done
		}
		vAssert(len(errs) == 0, "concurrent-builds-interfere")
		return
	}
	// first build materialises (initialises) the package state
	_, _, err := z.newWithChunkMode(mk("a"), DefaultChunkMode)
	vAssert(err == nil, "first-build")
	vShareGlobals()
	_, _, err = z.newWithChunkMode(mk("b"), vChunkMode())
	vAssert(err == nil, "second-build")
	syn, _ := vGenSynBatchFixed()
	_, _, err = z.newWithChunkMode(syn, DefaultChunkMode)
	vAssert(err == nil, "syn-build")
	vUnshare()
}

// H11_big (C11's last sentence, reduction R1): a stored-field visit of a document whose stored section is
// larger than 64 KiB writes only into memory it owns - in particular not into a buffer kept on the shared
// segment, which a concurrent visit would overwrite while the first visitor is still looking at its bytes.
// Natively: two goroutines visit two such documents concurrently and compare what they were handed.
func H11_big() {
	mkVal := func(seed uint32) []byte {
		val := make([]byte, 70000)
		x := seed
		for i := range val {
			x = x*1103515245 + 12345
			val[i] = byte(x >> 16)
		}
		return val
	}
	v0, v1 := mkVal(7), mkVal(99)
	docs := []index.Document{
		&vDoc{id: "d0", fields: []index.Field{vIDField("d0"), vTextField("f", 1, []vTerm{{term: "a", freq: 1}}, index.IndexField|index.StoreField, v0, nil, 't')}},
		&vDoc{id: "d1", fields: []index.Field{vIDField("d1"), vTextField("f", 1, []vTerm{{term: "a", freq: 1}}, index.IndexField|index.StoreField, v1, nil, 't')}},
	}
	var z ZapPlugin
	segI, _, err := z.newWithChunkMode(docs, DefaultChunkMode)
	vAssert(err == nil, "build")
	var seg segment.Segment = segI
	if vBool("reopen") {
		vAssert(segI.(*SegmentBase).Persist(vP("big11.zap")) == nil, "persist")
		seg, err = z.Open(vP("big11.zap"))
		vAssert(err == nil, "open")
	}
	visit := func(d uint64, want []byte) bool {
		ok := true
		_ = seg.VisitStoredFields(d, func(field string, typ byte, value []byte, pos []uint64) bool {
			if field == "f" {
				ok = len(value) == len(want) && value[0] == want[0] && value[len(value)-1] == want[len(want)-1] && value[35000] == want[35000]
			}
			return true
		})
		return ok
	}
	if !vSymbolic() {
		done := make(chan bool, 2)
		for g := 0; g < 2; g++ {
			go func(g int) {
				ok := true
				for i := 0; i < 300; i++ {
					ok = ok && visit(uint64(g), [][]byte{v0, v1}[g])
				}
				done <- ok
			}(g)
		}
		a, b := <-done, <-done
		vAssert(a && b, "concurrent-visit-bytes")
		return
	}
	vAssert(visit(0, v0), "warm-up") // (the first visit of a cold segment)
	vShare(seg)
	vAssert(visit(0, v0), "visit0")
	vAssert(visit(1, v1), "visit1")
	vUnshare()
}
