package zap

import (
	index "github.com/blevesearch/bleve_index_api"
)

func init() {
	vRegister("H01_shape", H01_shape)
	vRegister("H01_width", H01_width)
}

func vChunkMode() uint32 {
	mode := vU32("chunkMode")
	vAssume(mode >= 1 && mode <= 1026)
	return mode
}

func vTier2() bool { return vTierThorough }

var vTierThorough = false

// H01_shape: every batch shape inside the bound, narrow numbers, symbolic chunk mode.
func H01_shape() {
	cfg := gCfg{prefix: "", idBase: "d", nDocs: 1 + vChoice("nDocs", 2), wide: -1, freqZero: vParam("freqZero", 1) == 1, maxAP: 1, noFx: vParam("lite", 0) == 1,
		fields: []gField{
			{name: "f", terms: []string{"", "a"}, tv: true, maxLocs: 1, multi: true},
			{name: "g", terms: []string{"é", "b"}, dv: true},
		}}
	if vParam("comp", 0) == 1 {
		// a composite field (bleve's _all): delivered through VisitComposite, its locations name the source field
		cfg.fields[1] = gField{name: "c", terms: []string{"é", "b"}, tv: true, maxLocs: 1, comp: true, locField: "f", noTVOpt: vParam("noTVOpt", 1) == 1}
		cfg.fields[0].always = true
	}
	if vParam("lite", 0) == 1 {
		cfg.fields[0].terms = []string{""}
		cfg.fields[0].multi = false
		if vParam("liteMulti", 0) == 1 {
			// (two terms and up to two values per document: a later value may have more distinct terms than an earlier one)
			cfg.fields[0].terms = []string{"", "a"}
			cfg.fields[0].multi = true
			cfg.fields[0].always = true
			cfg.fields = cfg.fields[:1]
			cfg.nDocs = 1
			cfg.freqZero = false
			cfg.maxAP = 0
			cfg.fields[0].fixLocs = true
		} else {
			cfg.fields[1].terms = []string{"é"}
		}
	}
	docs, sp := vGenBatch(cfg)
	var z ZapPlugin
	seg, _, err := z.newWithChunkMode(docs, vChunkMode())
	vAssert(err == nil, "build")
	sCheckPostings(seg, sp, "")
}

// H01_width: a fixed rich shape; one number (chosen symbolically) is full width.
func H01_width() {
	nDocs := vParam("widthDocs", 2)
	nNumbers := 6 * nDocs
	cfg := gCfg{prefix: "", idBase: "d", nDocs: nDocs, wide: vChoice("wide", nNumbers), freqZero: true, maxAP: 1,
		fields: []gField{
			{name: "f", terms: []string{"a"}, tv: true, maxLocs: 1, always: true, allTerm: true},
			{name: "g", terms: []string{"b"}, always: true, allTerm: true},
		}}
	docs, sp := vGenBatch(cfg)
	var z ZapPlugin
	seg, _, err := z.newWithChunkMode(docs, vChunkMode())
	vAssert(err == nil, "build")
	sCheckPostings(seg, sp, "")
}

var _ index.Document
