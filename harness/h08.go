package zap

import (
	"fmt"
	"sort"

	"github.com/RoaringBitmap/roaring/v2"
	index "github.com/blevesearch/bleve_index_api"
	segment "github.com/blevesearch/scorch_segment_api/v2"
	"github.com/blevesearch/vellum"
	"github.com/blevesearch/vellum/levenshtein"
	"github.com/blevesearch/vellum/regexp"
)

func init() {
	vRegister("H08_dict", H08_dict)
}

var vDictAlphabet = []string{"", "a", "ab", "b", "é"}

type vAutoSpec struct {
	name   string
	accept func(string) bool
	make   func() vellum.Automaton
}

func vAutomata() []vAutoSpec {
	return []vAutoSpec{
		{"nil", func(string) bool { return true }, func() vellum.Automaton { return nil }},
		{"all", func(string) bool { return true }, func() vellum.Automaton { return vAlwaysMatch() }},
		{"prefix-a", func(s string) bool { return len(s) >= 1 && s[0] == 'a' }, func() vellum.Automaton {
			r, err := regexp.New("a.*")
			vAssert(err == nil, "regexp")
			return r
		}},
		{"exact-ab", func(s string) bool { return s == "ab" }, func() vellum.Automaton {
			r, err := regexp.New("ab")
			vAssert(err == nil, "regexp")
			return r
		}},
		{"lev1-a", func(s string) bool { return s == "" || s == "a" || s == "ab" || s == "b" || s == "é" }, func() vellum.Automaton {
			lb, err := levenshtein.NewLevenshteinAutomatonBuilder(1, false)
			vAssert(err == nil, "lev-builder")
			a, err := lb.BuildDfa("a", 1)
			vAssert(err == nil, "lev-dfa")
			return a
		}},
		{"never", func(string) bool { return false }, func() vellum.Automaton {
			r, err := regexp.New("zzz")
			vAssert(err == nil, "regexp")
			return r
		}},
	}
}

// vDictBatch: three documents; term ti occurs in card[ti] documents (freq 1, no locations).
func vDictBatch(card []int) []index.Document {
	nDocs := 3
	docs := make([]*vDoc, nDocs)
	for d := range docs {
		id := fmt.Sprint("d", d)
		docs[d] = &vDoc{id: id, fields: []index.Field{vIDField(id)}}
	}
	terms := make([][]vTerm, nDocs)
	for ti, t := range vDictAlphabet {
		for d := 0; d < card[ti]; d++ {
			// occurrences start at document ti%nDocs so that terms are spread
			terms[(ti+d)%nDocs] = append(terms[(ti+d)%nDocs], vTerm{term: t, freq: 1})
		}
	}
	var batch []index.Document
	for d := range docs {
		docs[d].fields = append(docs[d].fields, vTextField("f", 3, terms[d], index.IndexField, nil, nil, 't'))
		batch = append(batch, docs[d])
	}
	return batch
}

// H08_dict: dictionary enumeration with automata and key ranges on built, re-opened and merged segments.
func H08_dict() {
	// term t occurs in 1 or 2 documents (or not at all); 3 documents
	if vParam("lite", 0) == 1 {
		vDictAlphabet = []string{"", "a", "ab", "b"}
	}
	card := make([]int, len(vDictAlphabet))
	for ti := range vDictAlphabet {
		card[ti] = vChoice(fmt.Sprint("card", ti), 3)
	}
	batch := vDictBatch(card)
	var z ZapPlugin
	segI, _, err := z.newWithChunkMode(batch, DefaultChunkMode)
	vAssert(err == nil, "build")
	var seg segment.Segment = segI
	prov := vChoice("prov", vParam("provs", 6)) // built, opened, merged once, merged twice
	if prov == 1 {
		vAssert(segI.(*SegmentBase).Persist(vP("d.zap")) == nil, "persist")
		seg, err = z.Open(vP("d.zap"))
		vAssert(err == nil, "open")
	}
	if prov == 2 || prov == 3 {
		_, _, err := z.Merge([]segment.Segment{segI}, []*roaring.Bitmap{nil}, vP("m1.zap"), nil, nil)
		vAssert(err == nil, "merge1")
		seg, err = z.Open(vP("m1.zap"))
		vAssert(err == nil, "open1")
		if prov == 3 {
			_, _, err := z.Merge([]segment.Segment{seg}, []*roaring.Bitmap{nil}, vP("m2.zap"), nil, nil)
			vAssert(err == nil, "merge2")
			seg, err = z.Open(vP("m2.zap"))
			vAssert(err == nil, "open2")
		}
	}
	mult := 1
	if prov == 5 {
		// two segments with the same content merged: every term is in both inputs
		seg2, _, err := z.newWithChunkMode(vDictBatch(card), DefaultChunkMode)
		vAssert(err == nil, "build2")
		_, _, err = z.Merge([]segment.Segment{segI, seg2}, []*roaring.Bitmap{nil, nil}, vP("m5.zap"), nil, nil)
		vAssert(err == nil, "merge5")
		seg, err = z.Open(vP("m5.zap"))
		vAssert(err == nil, "open5")
		mult = 2
	}
	if prov == 4 {
		// merged behind another segment that lacks the field and has a deleted document
		o0 := &vDoc{id: "o0", fields: []index.Field{vIDField("o0"), vTextField("other", 1, []vTerm{{term: "k", freq: 1}}, index.IndexField, nil, nil, 't')}}
		o1 := &vDoc{id: "o1", fields: []index.Field{vIDField("o1"), vTextField("other", 1, []vTerm{{term: "k", freq: 1}}, index.IndexField, nil, nil, 't')}}
		oseg, _, err := z.newWithChunkMode([]index.Document{o0, o1}, DefaultChunkMode)
		vAssert(err == nil, "other-build")
		drop := roaring.New()
		drop.Add(uint32(vChoice("otherDrop", 2)))
		_, _, err = z.Merge([]segment.Segment{oseg, segI}, []*roaring.Bitmap{drop, nil}, vP("m4.zap"), nil, nil)
		vAssert(err == nil, "merge4")
		seg, err = z.Open(vP("m4.zap"))
		vAssert(err == nil, "open4")
	}
	if vSkipKnown("C08-count-after-single-hit") && prov >= 2 {
		// recorded finding: a general entry enumerated after a single-hit entry reports count 1
		sawSingle := false
		for ti := range vDictAlphabet {
			if card[ti] == 1 {
				sawSingle = true
			}
			if card[ti] == 2 && sawSingle {
				return
			}
		}
	}
	dict, err := seg.Dictionary("f")
	vAssert(err == nil && dict != nil, "dict")
	// Contains / Cardinality
	total := 0
	for ti, t := range vDictAlphabet {
		c, err := dict.Contains([]byte(t))
		vAssert(err == nil && c == (card[ti] > 0), "contains")
		if card[ti] > 0 {
			total++
		}
	}
	vAssert(dict.Cardinality() == total, "cardinality")
	autos := vAutomata()
	if vParam("lite", 0) == 1 {
		autos = []vAutoSpec{autos[0], autos[2]}
	}
	au := autos[vChoice("auto", len(autos))]
	// range bounds: absent, below all (""), equal to a term, between terms, above all
	bounds := []string{"\x00none", "", "a", "aa", "b", "zz"}
	if vParam("lite", 0) == 1 {
		bounds = []string{"\x00none", "", "a", "aa"}
	}
	si := vChoice("start", len(bounds))
	ei := vChoice("end", len(bounds))
	// an empty (non-nil) exclusive end key selects nothing. It is only asked with the start absent and when the
	// empty term itself is not in the dictionary (with the empty term present the FST library returns it - an
	// exact hit on the start position is not checked against the exclusive end; recorded as a validity predicate)
	if ei == 1 {
		emptyPresent := false
		for ti, t := range vDictAlphabet {
			if t == "" && card[ti] != 0 {
				emptyPresent = true
			}
		}
		vAssume(si == 0 && !emptyPresent)
	}
	var start, end []byte
	if si > 0 {
		start = []byte(bounds[si])
	}
	if ei > 0 {
		end = []byte(bounds[ei])
	}
	if si > 0 && ei > 0 {
		vAssume(bounds[si] < bounds[ei])
	}
	var want []string
	for ti, t := range vDictAlphabet {
		if card[ti] == 0 || !au.accept(t) {
			continue
		}
		if si > 0 && t < bounds[si] {
			continue
		}
		if ei > 0 && t >= bounds[ei] {
			continue
		}
		want = append(want, t)
	}
	sort.Strings(want)
	it := dict.AutomatonIterator(au.make(), start, end)
	for _, t := range want {
		e, err := it.Next()
		vAssert(err == nil && e != nil, "entry-missing")
		vAssert(e.Term == t, "entry-term")
		c := 0
		for ti := range vDictAlphabet {
			if vDictAlphabet[ti] == t {
				c = card[ti]
			}
		}
		vAssert(e.Count == uint64(c*mult), "entry-count")
	}
	e, err := it.Next()
	vAssert(err == nil && e == nil, "end")
	e, err = it.Next()
	vAssert(err == nil && e == nil, "end-again")
	// a field without dictionary
	nd, err := seg.Dictionary("nofield")
	vAssert(err == nil && nd != nil, "nofield")
	ne, err := nd.AutomatonIterator(nil, nil, nil).Next()
	vAssert(err == nil && ne == nil, "nofield-empty")
}
