package zap

import (
	"os"
	"path/filepath"

	"github.com/RoaringBitmap/roaring/v2"
	index "github.com/blevesearch/bleve_index_api"
	segment "github.com/blevesearch/scorch_segment_api/v2"
)

func init() {
	vRegister("Hcorpus_write", Hcorpus_write)
	vRegister("H09_corpus", H09_corpus)
}

// The corpus: three files written once by the pinned release (commit 562467b; see corpus/README) from the
// batches below - concrete instances of the generators, every shape bit and number pinned here.

var vCorpusPinsA = map[string]uint64{
	"idDV": 1,
	// doc 0: f twice (multi), terms "" and "a" with locations; g with "é"
	"fp0_0": 1, "fm0_0": 1,
	"len0_0_0": 3, "has0_0_0_0": 1, "nl0_0_0_0": 1, "fx0_0_0_0": 1, "skipfn0_0_0_0": 0, "nap0_0_0_0_0": 1, "pos0_0_0_0_0": 1, "st0_0_0_0_0": 0, "en0_0_0_0_0": 70000, "0_0_0_0_0ap0": 5,
	"has0_0_0_1": 1, "nl0_0_0_1": 0, "freq0_0_0_1": 300, "st0_0_0": 1, "typ0_0_0": 200, "snap0_0_0": 1, "s0_0_0ap0": 9,
	"len0_0_1": 2, "has0_0_1_0": 0, "has0_0_1_1": 1, "nl0_0_1_1": 1, "fx0_0_1_1": 0, "skipfn0_0_1_1": 0, "nap0_0_1_1_0": 0, "pos0_0_1_1_0": 2, "st0_0_1_1_0": 4, "en0_0_1_1_0": 5, "st0_0_1": 1, "typ0_0_1": 116, "snap0_0_1": 0,
	"fp0_1": 1, "len0_1_0": 1, "has0_1_0_0": 1, "freq0_1_0_0": 1,
	// doc 1: only g
	"fp1_0": 0, "fp1_1": 1, "len1_1_0": 130, "has1_1_0_0": 1, "freq1_1_0_0": 16384,
	// doc 2: f once, freq 0 with a location
	"fp2_0": 1, "fm2_0": 0, "len2_0_0": 1, "has2_0_0_0": 0, "has2_0_0_1": 1, "nl2_0_0_1": 1, "fx2_0_0_1": 0, "skipfn2_0_0_1": 1, "nap2_0_0_1_0": 0, "pos2_0_0_1_0": 127, "st2_0_0_1_0": 128, "en2_0_0_1_0": 129, "st2_0_0": 0,
	"fp2_1": 0,
}

func vCorpusCfgA() gCfg {
	return gCfg{prefix: "", idBase: "d", nDocs: 3, wide: 0, freqZero: true, maxAP: 1, idDV: true, symTyp: true,
		fields: []gField{
			{name: "f", terms: []string{"", "a"}, tv: true, maxLocs: 1, dv: true, store: true, multi: true},
			{name: "g", terms: []string{"é"}, dv: true},
		}}
}

// every number of the corpus batches is pinned, so "wide" only lifts the narrow-number assumption
func vCorpusBatchA() ([]index.Document, *sSpec) {
	for k, v := range vCorpusPinsA {
		vPin(k, v)
	}
	cfg := vCorpusCfgA()
	cfg.allWide = true
	return vGenBatch(cfg)
}

// d: the batch of a with an incompressible 200-byte doc-value term in field g (doc-value chunk data above 128
// bytes: two-byte varints in the chunk tables, the two trailer numbers differ)
func vCorpusBatchD() ([]index.Document, *sSpec) {
	for k, v := range vCorpusPinsA {
		vPin(k, v)
	}
	cfg := vCorpusCfgA()
	cfg.allWide = true
	cfg.fields[1].terms = []string{vLongTerm}
	cfg.valLens = []int{2, 3} // (stored values of 2 and 3 bytes: the second value of a document starts at offset 2)
	return vGenBatch(cfg)
}

var vCorpusPinsB = map[string]uint64{
	"ufp0_0": 1, "ulen0_0_0": 2, "uhas0_0_0_0": 1, "unl0_0_0_0": 1, "upos0_0_0_0_0": 3, "ust0_0_0_0_0": 1, "uen0_0_0_0_0": 2, "uhas0_0_0_1": 1, "unl0_0_0_1": 0, "ufreq0_0_0_1": 2,
	"ufp1_0": 1, "ulen1_0_0": 1, "uhas1_0_0_0": 0, "uhas1_0_0_1": 1, "unl1_0_0_1": 0, "ufreq1_0_0_1": 1,
	"wfp0_0": 1, "wlen0_0_0": 4, "whas0_0_0_0": 0, "whas0_0_0_1": 1, "wnl0_0_0_1": 1, "wpos0_0_0_1_0": 9, "wst0_0_0_1_0": 8, "wen0_0_0_1_0": 7,
	"wfp0_1": 1, "wlen0_1_0": 1, "whas0_1_0_0": 1, "wfreq0_1_0_0": 1,
}

func vCorpusInputsB() ([][]index.Document, []*sSpec) {
	for k, v := range vCorpusPinsB {
		vPin(k, v)
	}
	f := gField{name: "f", terms: []string{"", "a"}, tv: true, maxLocs: 1, dv: true}
	c0 := gCfg{prefix: "u", idBase: "u", nDocs: 2, noFx: true, allWide: true, fields: []gField{f}}
	c1 := gCfg{prefix: "w", idBase: "w", nDocs: 1, noFx: true, allWide: true, fields: []gField{f, {name: "g", terms: []string{"a"}, dv: true}}}
	d0, s0 := vGenBatch(c0)
	d1, s1 := vGenBatch(c1)
	return [][]index.Document{d0, d1}, []*sSpec{s0, s1}
}

var vCorpusPinsC = map[string]uint64{
	"cth0": 0, "cdef0_0_0": 1, "cdef0_1_0": 1, "cdef0_1_1": 1,
	"cth1": 1, "cdef1_1_1": 1,
}

func vCorpusBatchC() ([]index.Document, *sSynSpec) {
	for k, v := range vCorpusPinsC {
		vPin(k, v)
	}
	return vGenSynBatch("c", 2, true)
}

// Hcorpus_write (native only, run once against the pinned release): writes the corpus files.
func Hcorpus_write() {
	dir := os.Getenv("VERIF_CORPUS_DIR")
	if dir == "" || vSymbolic() {
		return
	}
	var z ZapPlugin
	docs, _ := vCorpusBatchA()
	seg, _, err := z.newWithChunkMode(docs, DefaultChunkMode)
	vAssert(err == nil, "build-a")
	vAssert(seg.(*SegmentBase).Persist(filepath.Join(dir, "a.zap")) == nil, "persist-a")
	ins, _ := vCorpusInputsB()
	s0, _, err := z.newWithChunkMode(ins[0], DefaultChunkMode)
	vAssert(err == nil, "build-b0")
	s1, _, err := z.newWithChunkMode(ins[1], DefaultChunkMode)
	vAssert(err == nil, "build-b1")
	drop := roaring.New()
	drop.Add(0)
	_, _, err = z.Merge([]segment.Segment{s0, s1}, []*roaring.Bitmap{drop, nil}, filepath.Join(dir, "b.zap"), nil, nil)
	vAssert(err == nil, "merge-b")
	sdocs, _ := vCorpusBatchC()
	sseg, _, err := z.newWithChunkMode(sdocs, DefaultChunkMode)
	vAssert(err == nil, "build-c")
	vAssert(sseg.(*SegmentBase).Persist(filepath.Join(dir, "c.zap")) == nil, "persist-c")
	ddocs, _ := vCorpusBatchD()
	dseg, _, err := z.newWithChunkMode(ddocs, DefaultChunkMode)
	vAssert(err == nil, "build-d")
	vAssert(dseg.(*SegmentBase).Persist(filepath.Join(dir, "d.zap")) == nil, "persist-d")
}

// H09_corpus: files written by the pinned release are opened by the current code with unchanged answers,
// and decode by the documented layout to the content that went in.
func H09_corpus() {
	var z ZapPlugin
	// a: built + persisted
	_, spA := vCorpusBatchA()
	vFSPut(vP("a.zap"), vCorpusA)
	a, err := z.Open(vP("a.zap"))
	vAssert(err == nil, "open-a")
	sCheckStored(a, spA, "a-")
	sCheckDocNumbers(a, spA, "a-")
	sCheckPostings(a, spA, "a-")
	sCheckDocValues(a, spA, []int{2, 0, 1, 0}, "a-")
	lCheckAgainstSpecX(vCorpusA, spA, DefaultChunkMode, "a-", !vSymbolic())
	// b: merged
	_, specs := vCorpusInputsB()
	want, _ := sMergeSpecs(specs, [][]bool{{true, false}, nil})
	vFSPut(vP("b.zap"), vCorpusB)
	b, err := z.Open(vP("b.zap"))
	vAssert(err == nil, "open-b")
	sCheckStored(b, want, "b-")
	sCheckDocNumbers(b, want, "b-")
	sCheckPostings(b, want, "b-")
	sCheckDocValuesX(b, want, []int{1, 0}, "b-", false)
	lCheckAgainstSpecX(vCorpusB, want, DefaultChunkMode, "b-", !vSymbolic())
	// c: synonyms
	_, spC := vCorpusBatchC()
	vFSPut(vP("c.zap"), vCorpusC)
	c, err := z.Open(vP("c.zap"))
	vAssert(err == nil, "open-c")
	sCheckThesauri(c, spC, nil, nil, "c-")
	// d: long doc-value term
	_, spD := vCorpusBatchD()
	vFSPut(vP("d.zap"), vCorpusD)
	d, err := z.Open(vP("d.zap"))
	vAssert(err == nil, "open-d")
	sCheckStored(d, spD, "d-")
	sCheckPostings(d, spD, "d-")
	sCheckDocValues(d, spD, []int{1, 2, 0}, "d-")
	lCheckAgainstSpecX(vCorpusD, spD, DefaultChunkMode, "d-", !vSymbolic())
}
