package zap

import (
	"encoding/binary"
	"fmt"
)

func init() {
	vRegister("K2_uvarint_rt", K2_uvarint_rt)
	vRegister("K2_uvarint_agree", K2_uvarint_agree)
	vRegister("K3_freqHasLocs", K3_freqHasLocs)
	vRegister("K4_1hit", K4_1hit)
}

// K2_uvarint_rt: PutUvarint / memUvarintReader.ReadUvarint / SkipUvarint /
// binary.Uvarint round trip for every uint64.
func K2_uvarint_rt() {
	x := vU64("x")
	buf := make([]byte, binary.MaxVarintLen64)
	n := binary.PutUvarint(buf, x)
	vAssert(n >= 1 && n <= 10, "unwind")
	vObserve("n", uint64(n))
	r := newMemUvarintReader(buf[:n])
	y, err := r.ReadUvarint()
	vAssert(err == nil, "rt-err")
	vAssert(y == x, "rt-value")
	vAssert(r.Len() == 0, "rt-consumed")
	z, n2 := binary.Uvarint(buf[:n])
	vAssert(vAnd(z == x, n2 == n), "std-agree")
	r2 := newMemUvarintReader(buf[:n])
	r2.SkipUvarint()
	vAssert(r2.C == n, "skip")
	// a second value directly behind is found at the right place
	buf2 := make([]byte, 2*binary.MaxVarintLen64)
	x2 := vU64("x2")
	m := binary.PutUvarint(buf2, x)
	m2 := binary.PutUvarint(buf2[m:], x2)
	r3 := newMemUvarintReader(buf2[:m+m2])
	a, _ := r3.ReadUvarint()
	b, err3 := r3.ReadUvarint()
	vAssert(err3 == nil, "rt2-err")
	vAssert(vAnd(a == x, b == x2), "rt2-values")
	vObserve("y", y)
}

// K2_uvarint_agree: on arbitrary terminated byte strings memUvarintReader agrees
// with encoding/binary.Uvarint (value, bytes consumed, overflow detection).
func K2_uvarint_agree() {
	l := 1 + vChoice("len", 11)
	raw := make([]byte, l)
	for i := range raw {
		raw[i] = vU8(fmt.Sprint("b", i))
	}
	// every caller hands the reader a terminated encoding
	vAssume(raw[l-1] < 0x80)
	v1, n1 := binary.Uvarint(raw)
	r := newMemUvarintReader(raw)
	v2, err := r.ReadUvarint()
	vAssert((n1 > 0) == (err == nil), "overflow-agree")
	if n1 > 0 {
		vAssert(v1 == v2, "value-agree")
		vAssert(r.C == n1, "consumed-agree")
	}
	r3 := newMemUvarintReader(raw)
	r3.SkipUvarint()
	if n1 > 0 {
		vAssert(r3.C == n1, "skip-agree")
	}
}

// K3: freq/hasLocs packing round-trips for freq < 2^63.
func K3_freqHasLocs() {
	freq := vU64("freq")
	has := vBool("hasLocs")
	vAssume(freq < 1<<63)
	e := encodeFreqHasLocs(freq, has)
	f2, h2 := decodeFreqHasLocs(e)
	vAssert(f2 == freq, "freq")
	vAssert(h2 == has, "hasLocs")
	vObserve("e", e)
}

// K4: single-hit FST value packing.
func K4_1hit() {
	doc := vU64("doc")
	norm := vU64("norm")
	vAssume(under32Bits(doc))
	vAssume(under32Bits(norm))
	vAssume(doc <= mask31Bits)
	vAssume(norm <= mask31Bits)
	v := FSTValEncode1Hit(doc, norm)
	vAssert(v&FSTValEncodingMask == FSTValEncoding1Hit, "tag")
	d2, n2 := FSTValDecode1Hit(v)
	vAssert(vAnd(d2 == doc, n2 == norm), "roundtrip")
	// a general offset below 2^62 is never classified single-hit
	off := vU64("off")
	vAssume(off < 1<<62)
	vAssert(off&FSTValEncodingMask == FSTValEncodingGeneral, "general-tag")
	vObserve("v", v)
}
