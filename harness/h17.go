package zap

import (
	"errors"
	"fmt"

	"github.com/RoaringBitmap/roaring/v2"
	index "github.com/blevesearch/bleve_index_api"
	segment "github.com/blevesearch/scorch_segment_api/v2"
)

func init() {
	vRegister("H17_writeTo", H17_writeTo)
	vRegister("H17_persist", H17_persist)
	vRegister("H17_merge", H17_merge)
	vRegister("H18_cancel", H18_cancel)
}

// vFailWriter fails (once) at a symbolically chosen Write call, accepting none, half or all-but-one of the bytes.
type vFailWriter struct {
	buf    []byte
	calls  int
	failed bool
	silent bool // a silent short write happened (no error was returned to the caller of Write)
}

var errVInjected = errors.New("injected write fault")

func (w *vFailWriter) Write(p []byte) (int, error) {
	w.calls++
	if !w.failed && !w.silent && vBool(fmt.Sprint("wfault#", w.calls)) {
		w.failed = true
		n := 0
		switch vChoice(fmt.Sprint("wshort#", w.calls), 4) {
		case 1:
			n = len(p) / 2
		case 2:
			if len(p) > 0 {
				n = len(p) - 1
			}
		case 3:
			// a silent short write: fewer bytes accepted and no error (a writer breaking the io.Writer contract). The
			// buffered writer in front of the destination either turns it into io.ErrShortWrite (flush) or writes
			// the remainder again (large direct write): the operation may succeed, but then the output is complete
			n = len(p) / 2
			w.buf = append(w.buf, p[:n]...)
			w.failed = false
			w.silent = true
			return n, nil
		}
		w.buf = append(w.buf, p[:n]...)
		return n, errVInjected
	}
	w.buf = append(w.buf, p...)
	return len(p), nil
}

func vSmallSegment() (*SegmentBase, []index.Document, *sSpec) {
	docs, sp := vGenBatchFixed(gCfg{prefix: "", idBase: "d", nDocs: 2, wide: -1,
		fields: []gField{{name: "f", terms: []string{"a", "b"}, dv: true, store: true, fixFreq: true}}})
	var z ZapPlugin
	seg, _, err := z.newWithChunkMode(docs, DefaultChunkMode)
	vAssert(err == nil, "build")
	return seg.(*SegmentBase), docs, sp
}

// vCompleteFile: the bytes are a complete segment file: body, footer, CRC; and it re-opens to the full content.
func vCompleteFile(file []byte, sb *SegmentBase, sp *sSpec, tag string) {
	vCompleteFileX(file, sb, sp, nil, tag)
}

func vCompleteFileX(file []byte, sb *SegmentBase, sp *sSpec, ssp *sSynSpec, tag string) {
	vAssert(len(file) == len(sb.mem)+FooterSize, tag+"complete-len")
	vAssert(vBytesEq(file[:len(sb.mem)], sb.mem), tag+"complete-body")
	vFSPut(vP("check.zap"), file)
	var z ZapPlugin
	o, err := z.Open(vP("check.zap"))
	vAssert(err == nil, tag+"complete-open")
	vAssert(o.(*Segment).CRC() == vCRC(file[:len(file)-4]), tag+"complete-crc")
	if sp != nil {
		sCheckStored(o, sp, tag+"c-")
		sCheckPostings(o, sp, tag+"c-")
	}
	if ssp != nil {
		vAssert(o.Count() == uint64(ssp.nDocs), tag+"c-count")
		sCheckThesauri(o, ssp, nil, nil, tag+"c-")
	}
	vAssert(o.Close() == nil, tag+"complete-close")
}

// vFaultSegment: the segment written by the fault harnesses: the small one, a richer one (two fields, term
// vectors with locations, stored values, doc values, three documents) or one with a synonym section.
func vFaultSegment() (*SegmentBase, *sSpec, *sSynSpec) {
	switch vChoice("seg", 4) {
	case 3:
		// a body larger than the 4 KiB write buffer: one incompressible stored value of 6000 bytes
		val := make([]byte, 6000)
		x := uint32(99991)
		for i := range val {
			x = x*1103515245 + 12345
			val[i] = byte(x >> 16)
		}
		docs := []index.Document{&vDoc{id: "d0", fields: []index.Field{vIDField("d0"),
			vTextField("f", 1, []vTerm{{term: "a", freq: 1}}, index.IndexField|index.StoreField, val, nil, 't')}}}
		sp := &sSpec{fields: []string{"_id", "f"}}
		sp.docs = append(sp.docs, &sDocSpec{id: "d0", stored: []sStoredVal{{field: "f", typ: 't', val: val}}})
		sp.fieldPost("_id").termPost("d0").hits = []sHit{{doc: 0, freq: 1, norm: 1}}
		sp.fieldPost("f").termPost("a").hits = []sHit{{doc: 0, freq: 1, norm: 1}}
		var z ZapPlugin
		seg, _, err := z.newWithChunkMode(docs, DefaultChunkMode)
		vAssert(err == nil, "build")
		return seg.(*SegmentBase), sp, nil
	case 1:
		docs, sp := vGenBatchFixed(gCfg{prefix: "", idBase: "d", nDocs: 3, wide: -1, idDV: false,
			fields: []gField{
				{name: "f", terms: []string{"a", "b"}, tv: true, maxLocs: 1, fixLocs: true, dv: true, store: true},
				{name: "g", terms: []string{"c"}, dv: true, store: true, fixFreq: true},
			}})
		var z ZapPlugin
		seg, _, err := z.newWithChunkMode(docs, DefaultChunkMode)
		vAssert(err == nil, "build")
		return seg.(*SegmentBase), sp, nil
	case 2:
		docs, ssp := vGenSynBatchFixed()
		var z ZapPlugin
		seg, _, err := z.newWithChunkMode(docs, DefaultChunkMode)
		vAssert(err == nil, "build")
		return seg.(*SegmentBase), nil, ssp
	}
	sb, _, sp := vSmallSegment()
	return sb, sp, nil
}

// H17_writeTo: WriteTo against a writer failing at any call: error, or complete bytes.
func H17_writeTo() {
	sb, sp, ssp := vFaultSegment()
	w := &vFailWriter{}
	n, err := sb.WriteTo(w)
	if w.failed {
		vAssert(err != nil, "fault-reported")
		return
	}
	if w.silent && err != nil {
		return // the silent short write was noticed (io.ErrShortWrite from the buffered writer)
	}
	// no fault, or a silent short write that the buffered writer made up for: success with complete output
	vAssert(err == nil, "nofault-ok")
	vAssert(int(n) == len(w.buf), "n")
	vCompleteFileX(w.buf, sb, sp, ssp, "")
}

// H17_persist: Persist with a fault at any Write / Sync / Close of the destination.
func H17_persist() {
	sb, sp, ssp := vFaultSegment()
	path := vP("p.zap")
	if vBool("preexisting") {
		// an older, shorter file is already at the path (a longer one would keep its tail: outside the claim)
		vFSPut(path, []byte{1, 2, 3})
	}
	vFSFailWrites(path)
	err := sb.Persist(path)
	vFSDisarm()
	vAssert(vFSOpenHandles() == 0, "handle-closed")
	if err != nil {
		vAssert(!vFSExists(path), "error-no-file")
		return
	}
	vAssert(!vFSFaulted(), "fault-reported")
	vAssert(vFSExists(path), "ok-file")
	vCompleteFileX(vFSBytes(path), sb, sp, ssp, "")
}

// vLastInputSpecs: reference semantics of the inputs returned by the last vMergeInputs call.
var vLastInputSpecs []*sSpec

func vMergeInputs() ([]segment.Segment, []*roaring.Bitmap, *sSpec) {
	docs0, sp0 := vGenBatchFixed(gCfg{prefix: "a", idBase: "a", nDocs: 2, wide: -1,
		fields: []gField{{name: "f", terms: []string{"a", "b"}, dv: true, store: true, fixFreq: true}}})
	docs1, sp1 := vGenBatchFixed(gCfg{prefix: "b", idBase: "b", nDocs: 1, wide: -1,
		fields: []gField{{name: "f", terms: []string{"a"}, dv: true, store: true, fixFreq: true}, {name: "g", terms: []string{"c"}, dv: true, store: true, fixFreq: true}}}) // (the alphabetically last field has doc values too)
	var z ZapPlugin
	s0, _, err := z.newWithChunkMode(docs0, DefaultChunkMode)
	vAssert(err == nil, "build0")
	s1, _, err := z.newWithChunkMode(docs1, DefaultChunkMode)
	vAssert(err == nil, "build1")
	drop := roaring.New()
	drop.Add(1)
	want, _ := sMergeSpecs([]*sSpec{sp0, sp1}, [][]bool{{false, true}, nil})
	vLastInputSpecs = []*sSpec{sp0, sp1}
	return []segment.Segment{s0, s1}, []*roaring.Bitmap{drop, nil}, want
}

func vCheckMerged(path string, size uint64, want *sSpec, tag string) {
	file := vFSBytes(path)
	vAssert(size == uint64(len(file)), tag+"size")
	vAssert(len(file) >= FooterSize, tag+"has-footer")
	var z ZapPlugin
	m, err := z.Open(path)
	vAssert(err == nil, tag+"open")
	vAssert(m.(*Segment).CRC() == vCRC(file[:len(file)-4]), tag+"crc")
	vAssert(m.(*Segment).Version() == Version, tag+"version")
	sCheckStored(m, want, tag+"m-")
	sCheckPostings(m, want, tag+"m-")
	order := []int{}
	for d := range want.docs {
		order = append(order, d)
	}
	sCheckDocValuesX(m, want, order, tag+"m-", false)
	vAssert(m.Close() == nil, tag+"close")
}

// H17_merge: Merge with a small output buffer and a fault at any Write / Sync / Close.
func H17_merge() {
	saved := DefaultFileMergerBufferSize
	defer func() { DefaultFileMergerBufferSize = saved }()
	DefaultFileMergerBufferSize = vParam("mergeBuf", 64)
	vPoolDeterministic()
	segs, drops, want := vMergeInputs()
	inSpecs := vLastInputSpecs
	var wantSyn *sSynSpec
	opened := 0
	switch vChoice("inputs", 3) {
	case 1:
		// inputs opened from files (they must stay open and untouched whatever happens to the output)
		for i := range segs {
			p := vP(fmt.Sprint("in", i, ".zap"))
			vAssert(segs[i].(*SegmentBase).Persist(p) == nil, "persist-input")
			var z ZapPlugin
			o, err := z.Open(p)
			vAssert(err == nil, "open-input")
			segs[i] = o
			opened++
		}
	case 2:
		segs, drops, wantSyn = vSynMergeInputs()
		want = nil
		inSpecs = nil
	}
	path := vP("m.zap")
	vFSFailWrites(path)
	var z ZapPlugin
	_, size, err := z.Merge(segs, drops, path, nil, nil)
	vFSDisarm()
	vAssert(vFSOpenHandles() == opened, "handle-closed")
	vAssert(len(segs) == 2 && segs[0] != nil, "inputs-alive")
	// whatever the outcome, the inputs stay fully usable and the shared scratch pool holds no object twice
	for i, isp := range inSpecs {
		sCheckStored(segs[i], isp, "input-")
	}
	g1 := visitDocumentCtxPool.Get().(*visitDocumentCtx)
	g2 := visitDocumentCtxPool.Get().(*visitDocumentCtx)
	vAssert(g1 != g2, "pool-two-owners")
	if err != nil {
		vAssert(!vFSExists(path), "error-no-file")
		return
	}
	vAssert(!vFSFaulted(), "fault-reported")
	if want != nil {
		vCheckMerged(path, size, want, "")
		return
	}
	var z2 ZapPlugin
	m, err := z2.Open(path)
	vAssert(err == nil, "open")
	vAssert(m.Count() == 4, "syn-count")
	sCheckThesauri(m, wantSyn, nil, nil, "s-")
}

// vSynMergeInputs: two synonym segments, two terms per thesaurus (so that the per-term steps of the merge are reached).
func vSynMergeInputs() ([]segment.Segment, []*roaring.Bitmap, *sSynSpec) {
	var z ZapPlugin
	mk := func(prefix string) segment.Segment {
		oid := prefix + "o"
		sid := prefix + "s0"
		docs := []index.Document{
			&vDoc{id: oid, fields: []index.Field{vIDField(oid), vTextField("body", 2, []vTerm{{term: "w", freq: 1}, {term: "x", freq: 1}}, index.IndexField, nil, nil, 't')}},
			&vSynDoc{vDoc{id: sid, fields: []index.Field{vIDField(sid), &vSynField{name: "t1", terms: []string{"x", "y"}, syns: [][]string{{"p"}, {"q"}}}}}},
		}
		s, _, err := z.newWithChunkMode(docs, DefaultChunkMode)
		vAssert(err == nil, "syn-build")
		return s
	}
	wantSyn := &sSynSpec{pairs: map[string]map[string][]sSynPair{}, nDocs: 4, ids: []string{"ao", "as0", "bo", "bs0"}}
	wantSyn.add("t1", "x", "p", 1)
	wantSyn.add("t1", "y", "q", 1)
	wantSyn.add("t1", "x", "p", 3)
	wantSyn.add("t1", "y", "q", 3)
	return []segment.Segment{mk("a"), mk("b")}, []*roaring.Bitmap{nil, nil}, wantSyn
}

type vCancelStats struct{ writes int }

func (s *vCancelStats) ReportBytesWritten(uint64) {
	s.writes++
	vCancelTick(s.writes)
}

// H18_cancel: the close channel becomes closed at any poll of the merge (or before the call).
func H18_cancel() {
	vPoolDeterministic()
	vLastInputSpecs = nil
	var segs []segment.Segment
	var drops []*roaring.Bitmap
	var want *sSpec
	var wantSyn *sSynSpec
	input := vChoice("input", 4)
	opened := 0
	if input == 3 {
		// inputs opened from files
		segs, drops, want = vMergeInputs()
		for i := range segs {
			p := vP(fmt.Sprint("in", i, ".zap"))
			vAssert(segs[i].(*SegmentBase).Persist(p) == nil, "persist-input")
			var z ZapPlugin
			o, err := z.Open(p)
			vAssert(err == nil, "open-input")
			segs[i] = o
			opened++
		}
	} else if input == 2 {
		// every document of every input deleted: the merge writes nothing but must still honour cancellation
		segs, _, _ = vMergeInputs()
		d0, d1 := roaring.New(), roaring.New()
		d0.AddMany([]uint32{0, 1})
		d1.Add(0)
		drops = []*roaring.Bitmap{d0, d1}
	} else if input == 0 {
		segs, drops, want = vMergeInputs()
	} else {
		// synonym segments: two terms per thesaurus so that the per-term polls are reached
		segs, drops, wantSyn = vSynMergeInputs()
	}
	path := vP("c.zap")
	st := &vCancelStats{}
	ch := vCloseChan(&st.writes)
	var z ZapPlugin
	_, size, err := z.Merge(segs, drops, path, ch, st)
	vAssert(vFSOpenHandles() == opened, "handle-closed")
	vAssert(len(segs) == 2 && segs[0] != nil, "inputs-alive")
	// whatever the outcome, the inputs stay fully usable and the shared scratch pool holds no object twice
	for i, isp := range vLastInputSpecs {
		sCheckStored(segs[i], isp, "input-")
		sCheckPostings(segs[i], isp, "input-")
	}
	g1 := visitDocumentCtxPool.Get().(*visitDocumentCtx)
	g2 := visitDocumentCtxPool.Get().(*visitDocumentCtx)
	vAssert(g1 != g2, "pool-two-owners")
	vSentinelsIntact()
	vNote(fmt.Sprint("merge-returned-err=", err != nil, "-writes=", st.writes))
	if err != nil {
		vAssert(err == segment.ErrClosed, "err-is-closed")
		vAssert(!vFSExists(path), "error-no-file")
		return
	}
	if input == 2 {
		// not cancelled: the nothing-survives result itself is the subject of a recorded finding of C05
		vAssert(vCancelPolls() != 0, "zero-survivor-merge-polls-the-channel")
		return
	}
	if want != nil {
		vCheckMerged(path, size, want, "")
	} else {
		m, err := z.Open(path)
		vAssert(err == nil, "open")
		vAssert(m.Count() == 4, "syn-count")
		sCheckThesauri(m, wantSyn, nil, nil, "s-")
	}
}
