package zap

// Batch generator (symbolic shape + symbolic numbers) and the reference
// semantics of a batch, independent of zapx: what every query must answer.

import (
	"fmt"
	"sort"

	index "github.com/blevesearch/bleve_index_api"
	segment "github.com/blevesearch/scorch_segment_api/v2"
)

type sLoc struct {
	field           string
	pos, start, end uint64
	ap              []uint64
}

type sHit struct {
	doc        uint64
	freq, norm uint64 // norm: expected NormUint64 (0 when freq == 0)
	locs       []sLoc
}

type sTermPost struct {
	term string
	hits []sHit
}

type sFieldPost struct {
	field string
	terms []*sTermPost // every alphabet term, also those without hits
}

type sStoredVal struct {
	field string
	typ   byte
	val   []byte
	ap    []uint64
}

type sDV struct {
	field string
	terms []string
}

type sDocSpec struct {
	id     string
	stored []sStoredVal // without _id, in expected visiting order
	dv     []sDV
}

type sSpec struct {
	docs     []*sDocSpec
	fields   []string // expected Fields()
	posts    []*sFieldPost
	dvFields []string
}

func (sp *sSpec) fieldPost(name string) *sFieldPost {
	for _, fp := range sp.posts {
		if fp.field == name {
			return fp
		}
	}
	fp := &sFieldPost{field: name}
	sp.posts = append(sp.posts, fp)
	return fp
}

func (fp *sFieldPost) termPost(t string) *sTermPost {
	for _, tp := range fp.terms {
		if tp.term == t {
			return tp
		}
	}
	tp := &sTermPost{term: t}
	fp.terms = append(fp.terms, tp)
	return tp
}

// ---- generator

type gField struct {
	name      string
	terms     []string
	tv        bool // locations possible
	dv        bool
	store     bool // stored value possible
	maxLocs   int
	multi     bool     // the field may occur twice in a document
	maxOcc    int      // (with multi) up to this many occurrences (default 2)
	always    bool     // field present in every document (no presence bit)
	allTerm   bool     // every term present (no has bit)
	fixFreq   bool     // frequency is the constant 1 (no symbolic number)
	fixLocs   bool     // every hit has exactly maxLocs locations
	shape     bool     // geo-shape field: its encoded shape is one more doc-value term of the document
	comp      bool     // composite field (delivered through VisitComposite, like bleve's _all)
	locField  string   // the locations of its hits name this (existing) field instead of the field itself
	dvSym     bool     // (with dv) the doc-values option of each occurrence is symbolic: the field has doc values - for every document - as soon as one occurrence in the batch asks for them
	noTVOpt   bool     // locations are delivered although the field's options lack IncludeTermVectors (bleve's default composite field)
	locFields []string // (with maxLocs > 1) the i-th location of a hit names locFields[i%len]; "" = the field itself
}

type gCfg struct {
	prefix   string
	nDocs    int
	fields   []gField
	wide     int  // index of the number that is full width (-1: none)
	freqZero bool // allow freq == 0
	maxAP    int  // array positions per location / stored value
	idBase   string
	symTyp   bool     // stored type byte symbolic (else 't')
	storeAll bool     // every storable occurrence is stored (no symbolic bit)
	idDV     bool     // the _id field is indexed with doc values (symbolic per batch)
	fixAP    bool     // every location / stored value has exactly maxAP array positions
	ids      []string // external ids of the first documents (default idBase + number)
	allWide  bool     // no narrow-number assumption at all (corpus batches pin every number)
	noFx     bool     // freq of hits with locations is exactly the number of locations
	valLens  []int    // stored value lengths, cycled over (doc+field+occurrence); default 0..3
}

type gen struct {
	cfg gCfg
	k   int
}

const vNarrow = 60 // narrow numbers: (x<<1|1) still fits one varint byte

// num returns a symbolic number: narrow, or bounded only by limit if it is the designated wide one.
func (g *gen) num(name string, limit uint64) uint64 {
	v := vU64(g.cfg.prefix + name)
	if g.cfg.allWide {
		vAssume(v < limit)
		g.k++
		return v
	}
	if g.k == g.cfg.wide {
		vAssume(v < limit)
	} else {
		vAssume(v < vNarrow)
	}
	g.k++
	return v
}

func (g *gen) aps(name string, n int) []uint64 {
	if n == 0 {
		return nil
	}
	out := make([]uint64, n)
	for i := range out {
		out[i] = g.num(fmt.Sprint(name, "ap", i), 1<<63)
	}
	return out
}

type sPendingDV struct {
	ds *sDocSpec
	fi int
	dv sDV
}

// vGenBatch draws a batch from symbolic inputs and returns it with its reference semantics.
func vGenBatch(cfg gCfg) ([]index.Document, *sSpec) {
	g := &gen{cfg: cfg}
	sp := &sSpec{}
	var docs []index.Document
	idDV := cfg.idDV && cfg.nDocs > 0 && vBool(cfg.prefix+"idDV")
	nameSet := map[string]bool{}
	var names []string
	dvAsked := map[int]bool{}
	var pendingDV []sPendingDV
	for d := 0; d < cfg.nDocs; d++ {
		id := fmt.Sprint(cfg.idBase, d)
		if d < len(cfg.ids) {
			id = cfg.ids[d]
		}
		ds := &sDocSpec{id: id}
		idf := vIDField(id)
		if idDV {
			idf.options |= index.DocValues
			ds.dv = append(ds.dv, sDV{field: "_id", terms: []string{id}})
		}
		doc := &vDoc{id: id, fields: []index.Field{idf}}
		for fi, gf := range cfg.fields {
			occ := 0
			if gf.always || vBool(fmt.Sprint(cfg.prefix, "fp", d, "_", fi)) {
				occ = 1
				if gf.multi {
					mo := gf.maxOcc
					if mo < 2 {
						mo = 2
					}
					occ = 1 + vChoice(fmt.Sprint(cfg.prefix, "fm", d, "_", fi), mo)
				}
			}
			if occ == 0 {
				continue
			}
			if !nameSet[gf.name] {
				nameSet[gf.name] = true
				names = append(names, gf.name)
			}
			// per-term accumulation over occurrences (zapx merges same-named fields of a document)
			type acc struct {
				freq uint64
				locs []sLoc
				has  bool
			}
			accs := make([]acc, len(gf.terms))
			var totalLen uint64
			var dvTerms []string
			shapeTerm := ""
			for o := 0; o < occ; o++ {
				tag := fmt.Sprint(d, "_", fi, "_", o)
				length := g.num("len"+tag, 1<<31)
				totalLen += length
				var terms []vTerm
				for ti, t := range gf.terms {
					if !(gf.allTerm || vBool(fmt.Sprint(cfg.prefix, "has", tag, "_", ti))) {
						continue
					}
					tt := fmt.Sprint(tag, "_", ti)
					nl := 0
					if gf.tv && gf.maxLocs > 0 {
						if gf.fixLocs {
							nl = gf.maxLocs
						} else {
							nl = vChoice(cfg.prefix+"nl"+tt, gf.maxLocs+1)
						}
					}
					var freq uint64
					if nl > 0 {
						// the reader sizes its location buffers by freq: keep it small (layout), >= number of locations
						freq = uint64(nl)
						if !cfg.noFx {
							freq += uint64(vChoice(cfg.prefix+"fx"+tt, 2))
						}
						if cfg.freqZero && vBool(cfg.prefix+"skipfn"+tt) {
							// frequencies / norms switched off for the field, term vectors kept: freq 0 with locations
							freq = 0
						}
					} else if gf.fixFreq {
						freq = 1
					} else {
						freq = g.num("freq"+tt, 1<<63)
						if !cfg.freqZero {
							vAssume(freq >= 1)
						}
					}
					vt := vTerm{term: t, freq: int(freq)}
					for l := 0; l < nl; l++ {
						lt := fmt.Sprint(tt, "_", l)
						nap := 0
						if cfg.maxAP > 0 {
							if cfg.fixAP {
								nap = cfg.maxAP
							} else {
								nap = vChoice(cfg.prefix+"nap"+lt, cfg.maxAP+1)
							}
						}
						locF := gf.locField
						if len(gf.locFields) > 0 {
							locF = gf.locFields[l%len(gf.locFields)]
						}
						loc := vLoc{field: locF, pos: int(g.num("pos"+lt, 1<<63)), start: int(g.num("st"+lt, 1<<63)), end: int(g.num("en"+lt, 1<<63)), ap: g.aps(lt, nap)}
						vt.locs = append(vt.locs, loc)
						lf := gf.name
						if locF != "" {
							lf = locF
						}
						accs[ti].locs = append(accs[ti].locs, sLoc{field: lf, pos: uint64(loc.pos), start: uint64(loc.start), end: uint64(loc.end), ap: loc.ap})
					}
					terms = append(terms, vt)
					accs[ti].has = true
					accs[ti].freq += freq
				}
				if len(terms) > 0 {
					// a field that has tokens has a positive analysed length (validity predicate)
					vAssume(length >= 1)
				}
				if gf.shape {
					// a geo-shape field always has index tokens (the cells covering the shape): validity predicate.
					// (Without any token the field has no dictionary, and a merge takes doc values only from
					// inputs that have a dictionary for the field - the shape would be lost; see DESIGN.)
					vAssume(len(terms) > 0)
				}
				opts := index.IndexField
				if gf.tv && !gf.noTVOpt {
					opts |= index.IncludeTermVectors
				}
				if gf.dv && (!gf.dvSym || vBool(fmt.Sprint(cfg.prefix, "dvo", tag))) {
					opts |= index.DocValues
					dvAsked[fi] = true
				}
				var val []byte
				var ap []uint64
				typ := byte('t')
				if gf.store && (cfg.storeAll || vBool(fmt.Sprint(cfg.prefix, "st", tag))) {
					opts |= index.StoreField
					// distinct, position-coded, lengths 0..3
					vl := (d + fi + o) % 4
					if len(cfg.valLens) > 0 {
						vl = cfg.valLens[(d+fi+o)%len(cfg.valLens)]
					}
					val = make([]byte, vl)
					for i := range val {
						val[i] = byte(0x40 + 16*d + 4*fi + o + i)
					}
					if cfg.symTyp {
						typ = vU8(fmt.Sprint(cfg.prefix, "typ", tag))
					}
					nap := 0
					if cfg.maxAP > 0 {
						if cfg.fixAP {
							nap = cfg.maxAP
						} else {
							nap = vChoice(fmt.Sprint(cfg.prefix, "snap", tag), cfg.maxAP+1)
						}
					}
					ap = g.aps("s"+tag, nap)
					ds.stored = append(ds.stored, sStoredVal{field: gf.name, typ: typ, val: val, ap: ap})
				}
				tf := vTextField(gf.name, int(length), terms, opts, val, ap, typ)
				if gf.comp {
					doc.composite = append(doc.composite, tf)
				} else if gf.shape {
					sh := []byte{'S', byte('0' + d), byte('0' + o)}
					doc.fields = append(doc.fields, &vShapeField{tf, sh})
					shapeTerm = string(sh) // (the shape of the last occurrence wins)
				} else {
					doc.fields = append(doc.fields, tf)
				}
			}
			fp := sp.fieldPost(gf.name)
			for ti, t := range gf.terms {
				tp := fp.termPost(t)
				if accs[ti].has {
					norm := vIteU64(accs[ti].freq == 0, 0, totalLen&0xffffffff)
					tp.hits = append(tp.hits, sHit{doc: uint64(d), freq: accs[ti].freq, norm: norm, locs: accs[ti].locs})
					dvTerms = append(dvTerms, t)
				}
			}
			if gf.dv {
				if gf.shape {
					dvTerms = append(dvTerms, shapeTerm)
				}
				if gf.dvSym {
					pendingDV = append(pendingDV, sPendingDV{ds, fi, sDV{field: gf.name, terms: dvTerms}})
				} else {
					ds.dv = append(ds.dv, sDV{field: gf.name, terms: dvTerms})
				}
			}
		}
		docs = append(docs, doc)
		sp.docs = append(sp.docs, ds)
	}
	// fields whose doc-values option was symbolic per occurrence: doc values for every document iff some occurrence asked
	for _, pd := range pendingDV {
		if dvAsked[pd.fi] {
			pd.ds.dv = append(pd.ds.dv, pd.dv)
		}
	}
	// alphabet terms of configured fields are known to the spec even if the field never occurs
	for _, gf := range cfg.fields {
		fp := sp.fieldPost(gf.name)
		for _, t := range gf.terms {
			fp.termPost(t)
		}
	}
	if cfg.nDocs > 0 {
		sort.Strings(names)
		sp.fields = append([]string{"_id"}, names...)
		for fi, gf := range cfg.fields {
			if gf.dv && nameSet[gf.name] && (!gf.dvSym || dvAsked[fi]) {
				sp.dvFields = append(sp.dvFields, gf.name)
			}
		}
		if idDV {
			sp.dvFields = append(sp.dvFields, "_id")
		}
		sort.Strings(sp.dvFields)
		// stored values are visited in field-id order (sorted names), occurrences in input order
		for _, ds := range sp.docs {
			sort.SliceStable(ds.stored, func(i, j int) bool { return ds.stored[i].field < ds.stored[j].field })
		}
	}
	return docs, sp
}

// ---- checks against the real reader

func u64sEq(a, b []uint64) bool {
	if len(a) != len(b) {
		return false
	}
	ok := true
	for i := range a {
		ok = vAnd(ok, a[i] == b[i])
	}
	return ok
}

// sCheckPostings: every (field, term) of the spec answers exactly the expected hits.
func sCheckPostings(seg segment.Segment, sp *sSpec, tag string) {
	// the list object of one lookup is handed back as preallocation to the next (also across fields and for
	// absent terms), as the callers of this API do
	var prev segment.PostingsList
	for _, fp := range sp.posts {
		dict, err := seg.Dictionary(fp.field)
		vAssert(err == nil && dict != nil, tag+"dict")
		for _, tp := range fp.terms {
			pl, err := dict.PostingsList([]byte(tp.term), nil, prev)
			prev = pl
			vAssert(err == nil && pl != nil, tag+"postingslist")
			vAssert(pl.Count() == uint64(len(tp.hits)), tag+"count")
			it := pl.Iterator(true, true, true, nil)
			for _, h := range tp.hits {
				p, err := it.Next()
				vAssert(err == nil, tag+"next-err")
				vAssert(p != nil, tag+"hit-missing")
				vAssert(p.Number() == h.doc, tag+"hit-doc")
				vAssert(p.Frequency() == h.freq, tag+"hit-freq")
				vAssert(p.(*Posting).NormUint64() == h.norm, tag+"hit-norm")
				locs := p.Locations()
				vAssert(len(locs) == len(h.locs), tag+"hit-nlocs")
				for i, l := range locs {
					e := h.locs[i]
					vAssert(l.Field() == e.field, tag+"loc-field")
					vAssert(vAnd(vAnd(l.Pos() == e.pos, l.Start() == e.start), l.End() == e.end), tag+"loc-numbers")
					vAssert(u64sEq(l.ArrayPositions(), e.ap), tag+"loc-ap")
				}
			}
			p, err := it.Next()
			vAssert(err == nil && p == nil, tag+"end")
		}
	}
	// a field that does not exist answers with empty results
	dict, err := seg.Dictionary("no-such-field")
	vAssert(err == nil && dict != nil, tag+"nofield-dict")
	pl, err := dict.PostingsList([]byte("a"), nil, prev)
	vAssert(err == nil && pl != nil && pl.Count() == 0, tag+"nofield-empty")
	p, err := pl.Iterator(true, true, true, nil).Next()
	vAssert(err == nil && p == nil, tag+"nofield-iter-empty")
}

// sCheckStored: Count, Fields, stored values, DocID, DocNumbers.
func sCheckStored(seg segment.Segment, sp *sSpec, tag string) {
	vAssert(seg.Count() == uint64(len(sp.docs)), tag+"count")
	fields := seg.Fields()
	vAssert(len(fields) == len(sp.fields), tag+"fields-len")
	for i := range fields {
		vAssert(fields[i] == sp.fields[i], tag+"fields")
	}
	for d, ds := range sp.docs {
		type got struct {
			field string
			typ   byte
			val   []byte
			ap    []uint64
		}
		var seen []got
		err := seg.VisitStoredFields(uint64(d), func(field string, typ byte, value []byte, pos []uint64) bool {
			seen = append(seen, got{field, typ, append([]byte(nil), value...), append([]uint64(nil), pos...)})
			return true
		})
		vAssert(err == nil, tag+"visit-err")
		vAssert(len(seen) == 1+len(ds.stored), tag+"visit-n")
		vAssert(seen[0].field == "_id" && string(seen[0].val) == ds.id && seen[0].typ == 't' && len(seen[0].ap) == 0, tag+"visit-id")
		for i, e := range ds.stored {
			s := seen[i+1]
			vAssert(s.field == e.field, tag+"visit-field")
			vAssert(s.typ == e.typ, tag+"visit-typ")
			vAssert(vBytesEq(s.val, e.val), tag+"visit-val")
			vAssert(u64sEq(s.ap, e.ap), tag+"visit-ap")
		}
		id, err := seg.DocID(uint64(d))
		vAssert(err == nil && string(id) == ds.id, tag+"docid")
	}
	// beyond Count: nothing
	n := 0
	err := seg.VisitStoredFields(uint64(len(sp.docs)), func(string, byte, []byte, []uint64) bool { n++; return true })
	vAssert(err == nil && n == 0, tag+"visit-beyond")
	id, err := seg.DocID(uint64(len(sp.docs)))
	vAssert(err == nil && id == nil, tag+"docid-beyond")
}

// sCheckDocNumbers checks id lookup for present and absent ids.
func sCheckDocNumbers(seg segment.Segment, sp *sSpec, tag string) {
	ids := []string{}
	for _, ds := range sp.docs {
		ids = append(ids, ds.id)
	}
	probe := append(append([]string{}, ids...), "", "zzz", "A")
	bm, err := seg.DocNumbers(probe)
	vAssert(err == nil && bm != nil, tag+"docnumbers-err")
	vAssert(bm.GetCardinality() == uint64(len(ids)), tag+"docnumbers-card")
	for d := range ids {
		vAssert(bm.Contains(uint32(d)), tag+"docnumbers-has")
	}
	for d, id := range ids {
		one, err := seg.DocNumbers([]string{"nope", id})
		vAssert(err == nil && one.GetCardinality() == 1 && one.Contains(uint32(d)), tag+"docnumbers-one")
	}
	none, err := seg.DocNumbers([]string{"nope", "zzzz"})
	vAssert(err == nil && none.GetCardinality() == 0, tag+"docnumbers-none")
}

// sCheckDocValues visits the doc values of every document in the given order with one state.
func sCheckDocValues(seg segment.Segment, sp *sSpec, order []int, tag string) {
	sCheckDocValuesX(seg, sp, order, tag, true)
}

// sCheckDocValuesX: with exactFields false (merged segments) the visitable list only has to lie between
// the fields that have a doc-value term in some document and the fields indexed with doc values.
func sCheckDocValuesX(seg segment.Segment, sp *sSpec, order []int, tag string, exactFields bool) {
	_ = sCheckDocValuesState(seg, sp, order, tag, exactFields, nil)
}

// sCheckDocValuesState threads the given visit state through the visits and returns it (reuse across segments).
func sCheckDocValuesState(seg segment.Segment, sp *sSpec, order []int, tag string, exactFields bool, st segment.DocVisitState) segment.DocVisitState {
	dvs, ok := seg.(segment.DocValueVisitable)
	vAssert(ok, tag+"dv-visitable")
	fl, err := dvs.VisitableDocValueFields()
	vAssert(err == nil, tag+"dv-fields-err")
	got := append([]string(nil), fl...)
	sort.Strings(got)
	if exactFields {
		vAssert(len(got) == len(sp.dvFields), tag+"dv-fields-len")
		for i := range got {
			vAssert(got[i] == sp.dvFields[i], tag+"dv-fields")
		}
	} else {
		in := func(l []string, x string) bool {
			for _, e := range l {
				if e == x {
					return true
				}
			}
			return false
		}
		for _, f := range got {
			vAssert(in(sp.dvFields, f), tag+"dv-fields-upper")
		}
		for _, ds := range sp.docs {
			for _, e := range ds.dv {
				if len(e.terms) > 0 {
					vAssert(in(got, e.field), tag+"dv-fields-lower")
				}
			}
		}
	}
	// ask for every configured field, also those without doc values
	ask := []string{"_id"}
	for _, fp := range sp.posts {
		ask = append(ask, fp.field)
	}
	for _, d := range order {
		type fv struct {
			field string
			term  string
		}
		var seen []fv
		st, err = dvs.VisitDocValues(uint64(d), ask, func(field string, term []byte) {
			seen = append(seen, fv{field, string(term)})
		}, st)
		vAssert(err == nil, tag+"dv-err")
		var want []fv
		for _, e := range sp.docs[d].dv {
			for _, t := range e.terms {
				want = append(want, fv{e.field, t})
			}
		}
		sort.Slice(seen, func(i, j int) bool {
			return seen[i].field < seen[j].field || (seen[i].field == seen[j].field && seen[i].term < seen[j].term)
		})
		sort.Slice(want, func(i, j int) bool {
			return want[i].field < want[j].field || (want[i].field == want[j].field && want[i].term < want[j].term)
		})
		vAssert(len(seen) == len(want), tag+"dv-n")
		for i := range want {
			vAssert(seen[i] == want[i], tag+"dv-term")
		}
	}
	return st
}
