package zap

import (
	"fmt"
	"github.com/blevesearch/vellum"
	"github.com/blevesearch/vellum/regexp"
	"sort"

	"github.com/RoaringBitmap/roaring/v2"
	index "github.com/blevesearch/bleve_index_api"
	segment "github.com/blevesearch/scorch_segment_api/v2"
)

func init() {
	vRegister("H12_syn", H12_syn)
	vRegister("H13_synmerge", H13_synmerge)
}

var vThesauri = []string{"t1", "t2"}
var vSynTerms = []string{"", "x"}
var vSynonyms = []string{"p", "q"}

type sSynPair struct {
	syn string
	doc uint64
}

// sSynSpec: thesaurus -> term -> pairs
type sSynSpec struct {
	nDocs int
	pairs map[string]map[string][]sSynPair
	ids   []string
	dual  bool // the ordinary document has a text field (term "k", doc values) named like thesaurus t1
}

func (s *sSynSpec) add(th, term, syn string, doc uint64) {
	if s.pairs[th] == nil {
		s.pairs[th] = map[string][]sSynPair{}
	}
	s.pairs[th][term] = append(s.pairs[th][term], sSynPair{syn, doc})
}

// vGenSynBatch: one ordinary document followed by nSyn synonym documents of symbolic shape.
func vGenSynBatch(prefix string, nSyn int, emptyTerm bool) ([]index.Document, *sSynSpec) {
	sp := &sSynSpec{pairs: map[string]map[string][]sSynPair{}}
	var docs []index.Document
	oid := prefix + "o"
	docs = append(docs, &vDoc{id: oid, fields: []index.Field{vIDField(oid),
		vTextField("body", 2, []vTerm{{term: "w", freq: 1}, {term: "x", freq: 1}}, index.IndexField, nil, nil, 't')}})
	sp.ids = append(sp.ids, oid)
	if vParam("dual", 0) == 1 && vBool(prefix+"dual") {
		// one field name used both as an ordinary text field (with doc values) and as a thesaurus: the field has
		// an inverted-index section and a synonym section
		od := docs[0].(*vDoc)
		od.fields = append(od.fields, vTextField("t1", 1, []vTerm{{term: "k", freq: 1}}, index.IndexField|index.DocValues, nil, nil, 't'))
		sp.dual = true
	}
	for d := 0; d < nSyn; d++ {
		id := fmt.Sprint(prefix, "s", d)
		th := vThesauri[vChoice(fmt.Sprint(prefix, "th", d), len(vThesauri))]
		sf := &vSynField{name: th}
		for ti, t := range vSynTerms {
			if t == "" && !emptyTerm {
				continue
			}
			var syns []string
			for si, s := range vSynonyms {
				if vBool(fmt.Sprint(prefix, "def", d, "_", ti, "_", si)) {
					syns = append(syns, s)
					sp.add(th, t, s, uint64(1+d))
				}
			}
			if len(syns) > 0 || (vParam("emptyDef", 0) == 1 && vBool(fmt.Sprint(prefix, "edef", d, "_", ti))) {
				// (emptyDef: a term may be defined with an empty synonym list - it contributes nothing)
				sf.terms = append(sf.terms, t)
				sf.syns = append(sf.syns, syns)
			}
		}
		sd := &vSynDoc{vDoc{id: id, fields: []index.Field{vIDField(id), sf}}}
		docs = append(docs, sd)
		sp.ids = append(sp.ids, id)
	}
	sp.nDocs = len(docs)
	return docs, sp
}

func sortPairs(p []sSynPair) {
	sort.Slice(p, func(i, j int) bool { return p[i].syn < p[j].syn || (p[i].syn == p[j].syn && p[i].doc < p[j].doc) })
}

// sCheckThesauri compares every thesaurus lookup with the reference pairs.
func sCheckThesauri(seg segment.Segment, sp *sSynSpec, except *roaring.Bitmap, excl []bool, tag string) {
	ts, ok := seg.(segment.ThesaurusSegment)
	vAssert(ok, tag+"thesaurus-segment")
	// unknown names, and names of fields that exist but are not thesauri, answer with empty results
	for _, th := range append(append([]string{}, vThesauri...), "nosuch", "body", "_id") {
		thes, err := ts.Thesaurus(th)
		vAssert(err == nil && thes != nil, tag+"thesaurus")
		// left-hand terms in ascending order
		var wantTerms []string
		allTerms := append([]string{}, vSynTerms...)
		for t := range sp.pairs[th] {
			known := false
			for _, k := range allTerms {
				if k == t {
					known = true
				}
			}
			if !known {
				allTerms = append(allTerms, t)
			}
		}
		sort.Strings(allTerms)
		for _, t := range allTerms {
			if len(sp.pairs[th][t]) > 0 {
				wantTerms = append(wantTerms, t)
			}
		}
		it := thes.AutomatonIterator(nil, nil, nil)
		for _, t := range wantTerms {
			e, err := it.Next()
			vAssert(err == nil && e != nil, tag+"term-missing")
			vAssert(e.Term == t, tag+"term")
		}
		e, err := it.Next()
		vAssert(err == nil && e == nil, tag+"terms-end")
		// the same listing through key ranges, without and with an automaton (match-all, and "x.*")
		type rng struct{ start, end []byte }
		for _, r := range []rng{{nil, []byte("x")}, {[]byte(""), []byte("y")}, {[]byte("x"), nil}, {[]byte("a"), []byte("x")}, {[]byte("x"), []byte("x\x00")}} {
			for ai := 0; ai < 3; ai++ {
				var au vellum.Automaton
				accept := func(string) bool { return true }
				if ai == 1 {
					au = vAlwaysMatch()
				} else if ai == 2 {
					re, err := regexp.New("x.*")
					vAssert(err == nil, tag+"regexp")
					au = re
					accept = func(t string) bool { return len(t) >= 1 && t[0] == 'x' }
				}
				rit := thes.AutomatonIterator(au, r.start, r.end)
				for _, t := range wantTerms {
					if (r.start != nil && t < string(r.start)) || (r.end != nil && t >= string(r.end)) || !accept(t) {
						continue
					}
					e, err := rit.Next()
					vAssert(err == nil && e != nil, tag+"range-term-missing")
					vAssert(e.Term == t, tag+"range-term")
				}
				e, err := rit.Next()
				vAssert(err == nil && e == nil, tag+"range-terms-end")
			}
		}
		var pre segment.SynonymsList
		var preIt segment.SynonymsIterator
		for _, t := range append(append([]string{}, allTerms...), "unknown") {
			c, err := thes.Contains([]byte(t))
			vAssert(err == nil && c == (len(sp.pairs[th][t]) > 0), tag+"contains")
			sl, err := thes.SynonymsList([]byte(t), except, pre)
			vAssert(err == nil && sl != nil, tag+"synlist")
			sit := sl.Iterator(preIt)
			var got []sSynPair
			for {
				s, err := sit.Next()
				vAssert(err == nil, tag+"syn-err")
				if s == nil {
					break
				}
				got = append(got, sSynPair{s.Term(), uint64(s.Number())})
				vAssert(len(got) <= 16, tag+"syn-runaway")
			}
			var want []sSynPair
			for _, p := range sp.pairs[th][t] {
				if excl == nil || !excl[p.doc] {
					want = append(want, p)
				}
			}
			sortPairs(got)
			sortPairs(want)
			vAssert(len(got) == len(want), tag+"pairs-n")
			for i := range want {
				vAssert(got[i] == want[i], tag+"pair")
			}
			// reuse the objects for the next lookup
			pre, preIt = sl, sit
		}
		if th == "body" || th == "_id" {
			continue
		}
		// a thesaurus name contributes nothing to the ordinary dictionaries
		d, err := seg.Dictionary(th)
		vAssert(err == nil && d != nil, tag+"thes-dict")
		dit := d.AutomatonIterator(nil, nil, nil)
		de, err := dit.Next()
		if sp.dual && th == "t1" {
			// ... but an ordinary field of the same name keeps its own dictionary, postings and doc values
			vAssert(err == nil && de != nil && de.Term == "k", tag+"dual-dict")
			de, err = dit.Next()
			var seen []string
			_, err2 := seg.(segment.DocValueVisitable).VisitDocValues(0, []string{"t1"}, func(f string, term []byte) { seen = append(seen, f+"="+string(term)) }, nil)
			vAssert(err2 == nil && len(seen) == 1 && seen[0] == "t1=k", tag+"dual-docvalues")
			fl, err3 := seg.(segment.DocValueVisitable).VisitableDocValueFields()
			has := false
			for _, f := range fl {
				has = has || f == "t1"
			}
			vAssert(err3 == nil && has, tag+"dual-dv-fields")
		}
		vAssert(err == nil && de == nil, tag+"thes-dict-empty")
	}
	// the ordinary field is unaffected
	d, err := seg.Dictionary("body")
	vAssert(err == nil, tag+"body-dict")
	for _, t := range []string{"w", "x"} {
		pl, err := d.PostingsList([]byte(t), nil, nil)
		vAssert(err == nil && pl.Count() == uint64(sp.bodyCount()), tag+"body-count")
	}
	for _, t := range []string{"p", "q", ""} {
		pl, err := d.PostingsList([]byte(t), nil, nil)
		vAssert(err == nil && pl.Count() == 0, tag+"body-nosyn")
	}
}

func (s *sSynSpec) bodyCount() int {
	n := 0
	for _, id := range s.ids {
		if id[len(id)-1] == 'o' {
			n++
		}
	}
	return n
}

// H12_syn: thesaurus lookups on built and re-opened segments, with exclusions and object reuse.
func H12_syn() {
	nSyn := vParam("fixSyn", 0) // (fixSyn: exactly that many synonym documents)
	if nSyn == 0 {
		nSyn = 1 + vChoice("nSyn", vParam("maxSyn", 2))
	}
	docs, sp := vGenSynBatch("", nSyn, vParam("emptyTerm", 1) == 1)
	var z ZapPlugin
	segI, _, err := z.newWithChunkMode(docs, DefaultChunkMode)
	vAssert(err == nil, "build")
	var seg segment.Segment = segI
	if vBool("reopen") {
		vAssert(segI.(*SegmentBase).Persist(vP("syn.zap")) == nil, "persist")
		seg, err = z.Open(vP("syn.zap"))
		vAssert(err == nil, "open")
	}
	var except *roaring.Bitmap
	var excl []bool
	if !vBool("exceptNil") {
		except = roaring.New()
		excl = make([]bool, sp.nDocs)
		for d := 1; d < sp.nDocs; d++ {
			if vBool(fmt.Sprint("ex", d)) {
				except.Add(uint32(d))
				excl[d] = true
			}
		}
	}
	sCheckThesauri(seg, sp, except, excl, "")
}

// H13_synmerge: merged thesauri hold exactly the surviving definitions under the new numbering.
func H13_synmerge() {
	emptyTerm := vParam("emptyTerm", 1) == 1
	docs0, sp0 := vGenSynBatch("a", 1+vChoice("nSyn0", vParam("maxSyn0", vParam("maxSyn", 1))), emptyTerm)
	docs1, sp1 := vGenSynBatch("b", 1+vChoice("nSyn1", vParam("maxSyn", 1)), emptyTerm)
	usesEmpty := false
	for _, sp := range []*sSynSpec{sp0, sp1} {
		for _, th := range vThesauri {
			if len(sp.pairs[th][""]) > 0 {
				usesEmpty = true
			}
		}
	}
	if usesEmpty && vSkipKnown("C13-empty-lhs-term") {
		return
	}
	s0 := vBuildInput(docs0, DefaultChunkMode, vParam("reopen", 1) == 1 && vBool("reopen0"), vP("in0.zap"))
	s1 := vBuildInput(docs1, DefaultChunkMode, false, vP("in1.zap"))
	d0, b0 := vDropBitmap("drop0_", sp0.nDocs)
	var d1 *roaring.Bitmap
	var b1 []bool
	if vParam("drop1", 1) == 1 {
		d1, b1 = vDropBitmap("drop1_", sp1.nDocs)
	}
	// expected: survivors renumbered
	want := &sSynSpec{pairs: map[string]map[string][]sSynPair{}}
	newNum := map[string]uint64{}
	next := uint64(0)
	for si, sp := range []*sSynSpec{sp0, sp1} {
		bits := [][]bool{b0, b1}[si]
		for d, id := range sp.ids {
			if bits != nil && bits[d] {
				continue
			}
			newNum[fmt.Sprint(si, "/", d)] = next
			next++
			want.ids = append(want.ids, id)
		}
	}
	want.nDocs = int(next)
	if next == 0 && vSkipKnown("C05-nothing-survives") {
		// recorded finding of C05 (the result of a merge without survivors cannot be queried); what holds stays checked
		var z ZapPlugin
		_, _, err := z.Merge([]segment.Segment{s0, s1}, []*roaring.Bitmap{d0, d1}, vP("m.zap"), nil, nil)
		vAssert(err == nil, "zero-merge")
		m, err := z.Open(vP("m.zap"))
		vAssert(err == nil && m.Count() == 0, "zero-open")
		vAssert(m.Close() == nil, "zero-close")
		return
	}
	for si, sp := range []*sSynSpec{sp0, sp1} {
		for _, th := range vThesauri {
			for _, t := range vSynTerms {
				for _, p := range sp.pairs[th][t] {
					if nn, ok := newNum[fmt.Sprint(si, "/", p.doc)]; ok {
						want.add(th, t, p.syn, nn)
					}
				}
			}
		}
	}
	var z ZapPlugin
	_, _, err := z.Merge([]segment.Segment{s0, s1}, []*roaring.Bitmap{d0, d1}, vP("m.zap"), nil, nil)
	vAssert(err == nil, "merge")
	m, err := z.Open(vP("m.zap"))
	vAssert(err == nil, "open")
	seg := m
	if vParam("twoGen", 0) == 1 && vBool("again") {
		// merge the merged segment once more (with nothing deleted)
		_, _, err := z.Merge([]segment.Segment{m}, []*roaring.Bitmap{nil}, vP("m2.zap"), nil, nil)
		vAssert(err == nil, "merge2")
		seg, err = z.Open(vP("m2.zap"))
		vAssert(err == nil, "open2")
	}
	sCheckThesauri(seg, want, nil, nil, "m-")
}
