package zap

import (
	"fmt"

	"github.com/RoaringBitmap/roaring/v2"
	index "github.com/blevesearch/bleve_index_api"
	segment "github.com/blevesearch/scorch_segment_api/v2"
)

func init() {
	vRegister("H07_seq", H07_seq)
}

// H07_seq: Next/Advance call sequences on one postings list with exclusions, detail flags, chunk modes,
// general and single-hit encodings, and preallocated (reused) list / iterator objects.
func H07_seq() {
	n := vParam("fixN", 0)
	if n == 0 {
		n = 1 + vChoice("N", vParam("maxN", 3))
	}
	cfg := gCfg{prefix: "", idBase: "d", nDocs: n, wide: -1, noFx: true,
		fields: []gField{
			{name: "f", terms: []string{"a"}, tv: true, maxLocs: vParam("maxLocs", 1), always: true, allTerm: vParam("allHits", 0) == 1},
			{name: "g", terms: []string{"b"}, always: true, allTerm: true, fixFreq: true},
		}}
	docs, sp := vGenBatch(cfg)
	mode := vChunkMode()
	var z ZapPlugin
	segI, _, err := z.newWithChunkMode(docs, mode)
	vAssert(err == nil, "build")
	var seg segment.Segment = segI
	hits := sp.fieldPost("f").termPost("a").hits
	variant := vChoice("variant", vParam("variants", 3)) // 0 built, 1 merged+opened (single-hit entries arise), 2 prealloc reuse
	if variant == 1 || variant == 5 {
		_, _, err := z.Merge([]segment.Segment{segI}, []*roaring.Bitmap{nil}, vP("m.zap"), nil, nil)
		vAssert(err == nil, "merge")
		seg, err = z.Open(vP("m.zap"))
		vAssert(err == nil, "open")
	}
	// exclusion set
	var except *roaring.Bitmap
	excl := make([]bool, n)
	if vParam("exceptNil", 0) == 0 && !vBool("exceptNil") {
		except = roaring.New()
		for d := 0; d < n; d++ {
			if vBool(fmt.Sprint("ex", d)) {
				except.Add(uint32(d))
				excl[d] = true
			}
		}
	}
	var live []sHit
	for _, h := range hits {
		if !excl[h.doc] {
			live = append(live, h)
		}
	}
	incF, incN, incL := true, true, true
	if vParam("allFlags", 0) == 0 {
		incF, incN, incL = vBool("incFreq"), vBool("incNorm"), vBool("incLocs")
	}
	dict, err := seg.Dictionary("f")
	vAssert(err == nil, "dict")
	var prePL segment.PostingsList
	var preIt segment.PostingsIterator
	if variant == 2 || variant == 5 {
		// objects used before on another field / term, partially iterated (variant 5: on the merged segment, where
		// the earlier list is general-encoded and the next one may be a single-hit entry)
		d2, _ := seg.Dictionary("g")
		prePL, err = d2.PostingsList([]byte("b"), nil, nil)
		vAssert(err == nil, "pre-pl")
		preIt = prePL.Iterator(true, true, true, nil)
		_, _ = preIt.Next()
	}
	if variant == 4 {
		// the objects of a lookup that missed (the shared "empty" list and iterator) are passed back as preallocation
		prePL, err = dict.PostingsList([]byte("no-such-term"), nil, nil)
		vAssert(err == nil && prePL != nil && prePL.Count() == 0, "miss-pl")
		preIt = prePL.Iterator(true, true, true, nil)
		mp, err := preIt.Next()
		vAssert(err == nil && mp == nil, "miss-it")
	}
	pl, err := dict.PostingsList([]byte("a"), except, prePL)
	vAssert(err == nil && pl != nil, "pl")
	vAssert(pl.Count() == uint64(len(live)), "count")
	it := pl.Iterator(incF, incN, incL, preIt)
	// the optimisable view describes exactly the live hits
	if oi, ok := it.(segment.OptimizablePostingsIterator); ok && len(hits) > 0 {
		if d1, is1 := oi.DocNum1Hit(); is1 {
			vAssert(len(hits) == 1 && d1 == hits[0].doc, "1hit-doc")
		} else if bm := oi.ActualBitmap(); bm != nil {
			vAssert(bm.GetCardinality() == uint64(len(live)), "actual-card")
			for _, h := range live {
				vAssert(bm.Contains(uint32(h.doc)), "actual-has")
			}
		}
	}
	if variant == 3 {
		// the actual bitmap of the fresh iterator is replaced by a subset of it
		oi, ok := it.(segment.OptimizablePostingsIterator)
		vAssert(ok, "optimizable")
		if bm := oi.ActualBitmap(); bm != nil {
			sub := roaring.New()
			var kept []sHit
			for _, h := range live {
				if vBool(fmt.Sprint("keep", h.doc)) {
					sub.Add(uint32(h.doc))
					kept = append(kept, h)
				}
			}
			oi.ReplaceActual(sub)
			live = kept
			vAssert(oi.ActualBitmap().GetCardinality() == uint64(len(live)), "replaced-card")
		}
	}
	pos := 0
	last := int64(-1)
	L := 1 + vChoice("L", vParam("maxL", 2))
	for c := 0; c < L; c++ {
		var got segment.Posting
		if vBool(fmt.Sprint("adv", c)) {
			t := vU64(fmt.Sprint("t", c))
			vAssume(int64(t) > last && t <= uint64(n))
			got, err = it.Advance(t)
			for pos < len(live) && live[pos].doc < t {
				pos++
			}
		} else {
			got, err = it.Next()
		}
		vAssert(err == nil, "call-err")
		if pos == len(live) {
			vAssert(got == nil, "end")
			// stays exhausted
			again, err := it.Next()
			vAssert(err == nil && again == nil, "end-again")
			break
		}
		e := live[pos]
		vAssert(got != nil, "hit-missing")
		vAssert(got.Number() == e.doc, "hit-doc")
		if incF || incN || incL {
			vAssert(got.Frequency() == e.freq, "hit-freq")
			vAssert(got.(*Posting).NormUint64() == e.norm, "hit-norm")
		} else {
			vAssert(got.Frequency() == 0, "nofreq")
		}
		locs := got.Locations()
		if incL {
			vAssert(len(locs) == len(e.locs), "hit-nlocs")
			for i, l := range locs {
				vAssert(vAnd(vAnd(l.Pos() == e.locs[i].pos, l.Start() == e.locs[i].start), l.End() == e.locs[i].end), "loc-numbers")
				vAssert(l.Field() == "f", "loc-field")
			}
		} else {
			vAssert(len(locs) == 0, "nolocs")
		}
		last = int64(e.doc)
		pos++
	}
	if variant == 4 {
		// a later lookup that misses still answers empty, and the shared sentinels are untouched
		again, err := dict.PostingsList([]byte("no-such-term"), nil, nil)
		vAssert(err == nil && again.Count() == 0, "miss-again-empty")
		vSentinelsIntact()
	}
}

var _ index.Document
