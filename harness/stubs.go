package zap

import (
	index "github.com/blevesearch/bleve_index_api"
)

// Document / field stubs for harnesses (independent of the repository's test stubs).

type vDoc struct {
	id        string
	fields    []index.Field
	composite []index.CompositeField
}

func (s *vDoc) ID() string                { return s.id }
func (s *vDoc) Size() int                 { return 0 }
func (s *vDoc) NumPlainTextBytes() uint64 { return 0 }
func (s *vDoc) StoredFieldsBytes() uint64 { return 0 }
func (s *vDoc) AddIDField()               {}
func (s *vDoc) Indexed() bool             { return true }
func (s *vDoc) HasComposite() bool        { return len(s.composite) > 0 }
func (s *vDoc) VisitFields(visitor index.FieldVisitor) {
	for _, f := range s.fields {
		visitor(f)
	}
}
func (s *vDoc) VisitComposite(visitor index.CompositeFieldVisitor) {
	for _, c := range s.composite {
		visitor(c)
	}
}

// VisitSynonymFields makes vDoc a SynonymDocument (only synonym fields are visited).
type vSynDoc struct{ vDoc }

func (s *vSynDoc) VisitSynonymFields(visitor index.SynonymFieldVisitor) {
	for _, f := range s.fields {
		if sf, ok := f.(index.SynonymField); ok {
			visitor(sf)
		}
	}
}

type vField struct {
	name     string
	value    []byte
	ap       []uint64
	typ      byte
	options  index.FieldIndexingOptions
	length   int
	freqs    index.TokenFrequencies
	termKeys []string // insertion order of freqs (for deterministic native iteration is not needed; informational)
}

func (s *vField) Name() string                                                  { return s.name }
func (s *vField) Value() []byte                                                 { return s.value }
func (s *vField) ArrayPositions() []uint64                                      { return s.ap }
func (s *vField) EncodedFieldType() byte                                        { return s.typ }
func (s *vField) Analyze()                                                      {}
func (s *vField) Options() index.FieldIndexingOptions                           { return s.options }
func (s *vField) AnalyzedLength() int                                           { return s.length }
func (s *vField) AnalyzedTokenFrequencies() index.TokenFrequencies              { return s.freqs }
func (s *vField) NumPlainTextBytes() uint64                                     { return 0 }
func (s *vField) Compose(field string, length int, freq index.TokenFrequencies) {}

// vShapeField is a geo-shape field: its encoded shape is an extra doc-value term of the document.
type vShapeField struct {
	*vField
	shape []byte
}

func (s *vShapeField) GeoShape() (index.GeoJSON, error) { return nil, nil }
func (s *vShapeField) EncodedShape() []byte             { return s.shape }

// vSynField defines synonyms: term -> synonyms, visited in the given order.
type vSynField struct {
	name  string
	terms []string
	syns  [][]string
}

func (s *vSynField) Name() string                                     { return s.name }
func (s *vSynField) Value() []byte                                    { return nil }
func (s *vSynField) ArrayPositions() []uint64                         { return nil }
func (s *vSynField) EncodedFieldType() byte                           { return 0 }
func (s *vSynField) Analyze()                                         {}
func (s *vSynField) Options() index.FieldIndexingOptions              { return 0 }
func (s *vSynField) AnalyzedLength() int                              { return 0 }
func (s *vSynField) AnalyzedTokenFrequencies() index.TokenFrequencies { return nil }
func (s *vSynField) NumPlainTextBytes() uint64                        { return 0 }
func (s *vSynField) IterateSynonyms(visitor func(term string, synonyms []string)) {
	for i, t := range s.terms {
		visitor(t, s.syns[i])
	}
}

// vIDField returns the mandatory stored _id field of a document.
func vIDField(id string) *vField {
	tf := &index.TokenFreq{Term: []byte(id)}
	tf.SetFrequency(1)
	return &vField{name: "_id", value: []byte(id), typ: 't',
		options: index.IndexField | index.StoreField, length: 1,
		freqs: index.TokenFrequencies{id: tf}}
}

// vLoc is one occurrence of a term.
type vLoc struct {
	field      string // source field ("" = the field itself)
	pos        int
	start, end int
	ap         []uint64
}

// vTerm is one term of a field with its frequency and locations.
type vTerm struct {
	term string
	freq int
	locs []vLoc
}

// vTextField builds an indexed field from explicit terms.
func vTextField(name string, length int, terms []vTerm, opts index.FieldIndexingOptions, value []byte, ap []uint64, typ byte) *vField {
	freqs := index.TokenFrequencies{}
	for _, t := range terms {
		tf := &index.TokenFreq{Term: []byte(t.term)}
		tf.SetFrequency(t.freq)
		for _, l := range t.locs {
			tf.Locations = append(tf.Locations, &index.TokenLocation{Field: l.field, ArrayPositions: l.ap, Start: l.start, End: l.end, Position: l.pos})
		}
		freqs[t.term] = tf
	}
	return &vField{name: name, value: value, ap: ap, typ: typ, options: opts, length: length, freqs: freqs}
}
