package zap

import (
	"github.com/RoaringBitmap/roaring/v2"
	index "github.com/blevesearch/bleve_index_api"
	segment "github.com/blevesearch/scorch_segment_api/v2"
)

func init() {
	vRegister("H02_big", H02_big)
}

// H02_big: stored values larger than a snappy block (70 000 bytes) next to empty and small ones: built,
// persisted and re-opened, and merged (byte copy when nothing is dropped and the field lists agree,
// re-encode otherwise). The compression scratch buffers of builder and merge are reused from document to
// document, so big-then-small orders are the interesting ones; which document is big is symbolic.
func H02_big() {
	rot := vChoice("rot", 3)
	lens := []int{70000, 2, 0, 300, 65536, 1}
	mk := func(prefix string, n int) ([]index.Document, *sSpec) {
		cfg := gCfg{prefix: prefix, idBase: prefix, nDocs: n, wide: -1, maxAP: 0, storeAll: true,
			valLens: append(append([]int{}, lens[rot:]...), lens[:rot]...),
			fields: []gField{
				{name: "s", terms: []string{"a"}, store: true, multi: true, allTerm: true, fixFreq: true, always: true},
				{name: "b", terms: []string{"x"}, store: true, allTerm: true, fixFreq: true, always: true},
			}}
		return vGenBatch(cfg)
	}
	docs, sp := mk("p", 3)
	var z ZapPlugin
	seg, _, err := z.newWithChunkMode(docs, DefaultChunkMode)
	vAssert(err == nil, "build")
	sCheckStored(seg, sp, "")
	path := vP("big.zap")
	vAssert(seg.(*SegmentBase).Persist(path) == nil, "persist")
	o, err := z.Open(path)
	vAssert(err == nil, "open")
	sCheckStored(o, sp, "o-")
	lCheckAgainstSpec(vFSBytes(path), sp, DefaultChunkMode, "o-")
	// merge with a second, small batch; one symbolic document of the big batch dropped (or none)
	docs2, sp2 := mk("q", 1)
	seg2, _, err := z.newWithChunkMode(docs2, DefaultChunkMode)
	vAssert(err == nil, "build2")
	drop := vChoice("drop", 4)
	bits := []bool{drop == 0, drop == 1, drop == 2}
	var bm *roaring.Bitmap
	if drop < 3 {
		bm = roaring.New()
		bm.Add(uint32(drop))
	}
	first := o
	if vBool("bigSecond") {
		want, _ := sMergeSpecs([]*sSpec{sp2, sp}, [][]bool{nil, bits})
		_, _, err = z.Merge([]segment.Segment{seg2, first}, []*roaring.Bitmap{nil, bm}, vP("m.zap"), nil, nil)
		vAssert(err == nil, "merge")
		m, err := z.Open(vP("m.zap"))
		vAssert(err == nil, "open-merged")
		sCheckStored(m, want, "m-")
		return
	}
	want, _ := sMergeSpecs([]*sSpec{sp, sp2}, [][]bool{bits, nil})
	_, _, err = z.Merge([]segment.Segment{first, seg2}, []*roaring.Bitmap{bm, nil}, vP("m.zap"), nil, nil)
	vAssert(err == nil, "merge")
	m, err := z.Open(vP("m.zap"))
	vAssert(err == nil, "open-merged")
	sCheckStored(m, want, "m-")
}
