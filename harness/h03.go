package zap

import (
	"fmt"

	index "github.com/blevesearch/bleve_index_api"
	segment "github.com/blevesearch/scorch_segment_api/v2"
)

func init() {
	vRegister("H03_dv", H03_dv)
}

func vDvCfg(prefix, idBase string, nDocs int) gCfg {
	if vParam("lite", 0) == 1 {
		return gCfg{prefix: prefix, idBase: idBase, nDocs: nDocs, wide: -1,
			fields: []gField{
				{name: "f", terms: []string{"", "a"}, dv: true, fixFreq: true},
				{name: "n", terms: []string{"c"}, fixFreq: true, always: true, allTerm: true},
			}}
	}
	return gCfg{prefix: prefix, idBase: idBase, nDocs: nDocs, wide: -1,
		fields: []gField{
			{name: "f", terms: []string{"", "a", "é"}, dv: true, fixFreq: true},
			{name: "g", terms: []string{"b"}, dv: true, fixFreq: true, shape: true},
			{name: "n", terms: []string{"c"}, fixFreq: true, always: true, allTerm: true}, // no doc values
		}}
}

// H03_dv: doc values for every visiting order (with repeats) and visit-state reuse, in memory and re-opened,
// for every doc-value chunk size.
func H03_dv() {
	saved := LegacyChunkMode
	defer func() { LegacyChunkMode = saved }()
	cm := vU32("dvChunk")
	vAssume(cm >= 1 && cm <= 1024)
	LegacyChunkMode = cm
	nDocs := 1 + vChoice("nDocs", vParam("maxDocs", 2))
	cfg := vDvCfg("", "d", nDocs)
	if vParam("dvSym", 0) == 1 {
		// the doc-values option differs between the occurrences of field f (different documents, or two values of
		// one document): the field has doc values as soon as one occurrence asks for them
		cfg.fields[0].dvSym = true
		cfg.fields[0].multi = true
	}
	docs, sp := vGenBatch(cfg)
	var z ZapPlugin
	if vBool("priorBuild") {
		// the (pooled) builder has been used before, for a batch with doc values on every field
		prior, _ := vGenBatchFixed(gCfg{prefix: "p", idBase: "p", nDocs: 1, wide: -1, idDV: false,
			fields: []gField{
				{name: "f", terms: []string{"z"}, dv: true, fixFreq: true},
				{name: "g", terms: []string{"z"}, dv: true, fixFreq: true},
				{name: "n", terms: []string{"z"}, dv: true, fixFreq: true},
			}})
		_, _, err := z.newWithChunkMode(prior, DefaultChunkMode)
		vAssert(err == nil, "prior-build")
	}
	segI, _, err := z.newWithChunkMode(docs, DefaultChunkMode)
	vAssert(err == nil, "build")
	var seg segment.Segment = segI
	if vBool("reopen") {
		vAssert(segI.(*SegmentBase).Persist(vP("dv.zap")) == nil, "persist")
		seg, err = z.Open(vP("dv.zap"))
		vAssert(err == nil, "open")
	}
	l := 1 + vChoice("seqLen", vParam("maxSeq", 3))
	order := make([]int, l)
	for i := range order {
		order[i] = vChoice(fmt.Sprint("visit", i), nDocs)
	}
	st := sCheckDocValuesState(seg, sp, order, "", true, nil)
	if vParam("secondSeg", 1) >= 1 && (vParam("secondSeg", 1) == 2 || vBool("secondSeg")) {
		// the same visit state is carried over to another segment (same field list)
		cfg2 := gCfg{prefix: "s", idBase: "s", nDocs: 2, wide: -1,
			fields: []gField{
				{name: "f", terms: []string{"q"}, dv: true, fixFreq: true},
				{name: "g", terms: []string{"r"}, dv: true, fixFreq: true},
				{name: "n", terms: []string{"c"}, fixFreq: true},
			}}
		var docs2 []index.Document
		var sp2 *sSpec
		if vParam("seg2sym", 0) == 1 {
			// ... in which any of the fields may be missing, so that field ids differ between the segments
			for i := range cfg2.fields {
				cfg2.fields[i].allTerm = true
			}
			cfg2.fields[2].always = true
			docs2, sp2 = vGenBatch(cfg2)
		} else {
			docs2, sp2 = vGenBatchFixed(cfg2)
		}
		seg2, _, err := z.newWithChunkMode(docs2, DefaultChunkMode)
		vAssert(err == nil, "build2")
		_ = sCheckDocValuesState(seg2, sp2, []int{1, 0}, "second-", true, st)
	}
}
