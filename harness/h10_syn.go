package zap

import (
	segment "github.com/blevesearch/scorch_segment_api/v2"
)

func init() {
	vRegister("H10_syn", H10_syn)
}

// H10_syn: two synonym batches built one after the other on the pooled builder (the pool model hands the
// same builder back): the thesauri of the second are exactly its own definitions, whatever the first one
// defined - fewer, more or the same number of left-hand terms, thesauri and synonyms.
func H10_syn() {
	var z ZapPlugin
	aDocs, _ := vGenSynBatch("a", vParam("aSyn", 1), true)
	_, _, err := z.newWithChunkMode(aDocs, DefaultChunkMode)
	vAssert(err == nil, "a-build")
	bDocs, bsp := vGenSynBatch("b", vParam("bSyn", 1), true)
	segI, _, err := z.newWithChunkMode(bDocs, DefaultChunkMode)
	vAssert(err == nil, "b-build")
	var seg segment.Segment = segI
	if vBool("reopen") {
		vAssert(segI.(*SegmentBase).Persist(vP("b.zap")) == nil, "persist")
		seg, err = z.Open(vP("b.zap"))
		vAssert(err == nil, "open")
	}
	sCheckThesauri(seg, bsp, nil, nil, "b-")
}
