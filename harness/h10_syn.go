package zap

import (
	index "github.com/blevesearch/bleve_index_api"
	segment "github.com/blevesearch/scorch_segment_api/v2"
)

func init() {
	vRegister("H10_syn", H10_syn)
	vRegister("H10_after", H10_after)
	vRegister("H10_grow", H10_grow)
}

// H10_syn: two synonym batches built one after the other on the pooled builder (the pool model hands the
// same builder back): the thesauri of the second are exactly its own definitions, whatever the first one
// defined - fewer, more or the same number of left-hand terms, thesauri and synonyms.
func H10_syn() {
	var z ZapPlugin
	aDocs, _ := vGenSynBatch("a", vParam("aSyn", 1), true)
	_, _, err := z.newWithChunkMode(aDocs, DefaultChunkMode)
	vAssert(err == nil, "a-build")
	bDocs, bsp := vGenSynBatch("b", vParam("bSyn", 1), true)
	segI, _, err := z.newWithChunkMode(bDocs, DefaultChunkMode)
	vAssert(err == nil, "b-build")
	var seg segment.Segment = segI
	if vBool("reopen") {
		vAssert(segI.(*SegmentBase).Persist(vP("b.zap")) == nil, "persist")
		seg, err = z.Open(vP("b.zap"))
		vAssert(err == nil, "open")
	}
	sCheckThesauri(seg, bsp, nil, nil, "b-")
	if vParam("plainAfter", 1) == 1 && vBool("plainAfter") {
		// ... and a plain batch after the synonym batches: its fields take over the ids the thesauri had
		docs, sp := vGenBatchFixed(gCfg{prefix: "c", idBase: "c", nDocs: 1, wide: -1,
			fields: []gField{
				{name: "f", terms: []string{"a"}, dv: true, store: true, fixFreq: true},
				{name: "g", terms: []string{"c"}, dv: true, fixFreq: true},
				{name: "h", terms: []string{"e"}, fixFreq: true},
			}})
		pseg, _, err := z.newWithChunkMode(docs, DefaultChunkMode)
		vAssert(err == nil, "c-build")
		sCheckStored(pseg, sp, "c-")
		sCheckPostings(pseg, sp, "c-")
		sCheckDocValues(pseg, sp, []int{0}, "c-")
		for _, th := range []string{"t1", "t2", "f", "g", "h"} {
			thes, err := pseg.(segment.ThesaurusSegment).Thesaurus(th)
			vAssert(err == nil && thes != nil, "c-thes")
			e, err := thes.AutomatonIterator(nil, nil, nil).Next()
			vAssert(err == nil && e == nil, "c-thes-empty")
		}
	}
}

// H10_after: a segment stays what it was when later batches are built in the same process: four batches of
// similar size are built one after the other, each segment is checked right after its build and all of
// them again at the end (in memory: nothing of a returned segment may alias reusable builder memory).
func H10_after() {
	var z ZapPlugin
	n := 3 + vChoice("nBuilds", 2)
	var segs []segment.Segment
	var specs []*sSpec
	for i := 0; i < n; i++ {
		pre := []string{"p", "q", "r", "s"}[i]
		docs, sp := vGenBatchFixed(gCfg{prefix: pre, idBase: pre, nDocs: 2, wide: -1, noFx: true,
			fields: []gField{
				{name: "f", terms: []string{"a", pre}, tv: true, maxLocs: 1, fixLocs: true, dv: true, store: true},
				{name: "g", terms: []string{"c"}, dv: true, fixFreq: true},
			}})
		seg, _, err := z.newWithChunkMode(docs, DefaultChunkMode)
		vAssert(err == nil, "build")
		sCheckStored(seg, sp, "now-")
		sCheckPostings(seg, sp, "now-")
		segs = append(segs, seg)
		specs = append(specs, sp)
	}
	for i := range segs {
		sCheckStored(segs[i], specs[i], "later-")
		sCheckDocNumbers(segs[i], specs[i], "later-")
		sCheckPostings(segs[i], specs[i], "later-")
		sCheckDocValues(segs[i], specs[i], []int{1, 0}, "later-")
	}
}

// H10_grow: two plain batches of independently chosen sizes (documents x terms x locations per term) built one
// after the other on the pooled builder: the backing arrays of the inverted section (postings, freq/norm,
// locations) are reused when large enough and re-allocated otherwise - every "grow" and "fits" combination
// of the three dimensions occurs. The second segment answers exactly as its batch dictates.
func H10_grow() {
	var z ZapPlugin
	alphabet := []string{"a", "b", "c"}
	mk := func(prefix string) ([]index.Document, *sSpec) {
		nDocs := 1 + vChoice(prefix+"docs", 3)
		nTerms := 1 + vChoice(prefix+"terms", 3)
		nLocs := vChoice(prefix+"locs", vParam("maxLocs", 4))
		// (the first batch's stored values carry array positions, the second one's do not)
		ap := 0
		if prefix == "a" {
			ap = 1
		}
		return vGenBatchFixed(gCfg{prefix: prefix, idBase: prefix, nDocs: nDocs, wide: -1, noFx: true, maxAP: ap, fixAP: true,
			fields: []gField{
				{name: "f", terms: alphabet[:nTerms], tv: nLocs > 0, maxLocs: nLocs, fixLocs: true, dv: true, store: true, fixFreq: true},
			}})
	}
	aDocs, asp := mk("a")
	aseg, _, err := z.newWithChunkMode(aDocs, DefaultChunkMode)
	vAssert(err == nil, "a-build")
	sCheckPostings(aseg, asp, "a-")
	bDocs, bsp := mk("b")
	bseg, _, err := z.newWithChunkMode(bDocs, DefaultChunkMode)
	vAssert(err == nil, "b-build")
	sCheckStored(bseg, bsp, "b-")
	sCheckPostings(bseg, bsp, "b-")
	order := []int{}
	for d := range bDocs {
		order = append(order, d)
	}
	sCheckDocValues(bseg, bsp, order, "b-")
	// and the first segment is still what it was
	sCheckPostings(aseg, asp, "a-later-")
}
