package zap

import (
	"encoding/json"
	"fmt"
	"os"
	"runtime/debug"
	"testing"
)

type vReplayInput struct {
	Name  string `json:"name"`
	W     int    `json:"w"`
	Value uint64 `json:"value"`
}

type vReplayCase struct {
	Inputs []vReplayInput    `json:"inputs"`
	Env    map[string]string `json:"env,omitempty"`
}

type vReplayFile struct {
	Harness string        `json:"harness"`
	Cases   []vReplayCase `json:"cases"`
	Multi   []vReplayFile `json:"multi,omitempty"`
}

type vReplayResult struct {
	Outcome  string   `json:"outcome"` // ok | skip | fail | panic
	Site     string   `json:"site,omitempty"`
	Msg      string   `json:"msg,omitempty"`
	Observed []string `json:"observed"`
	Notes    []string `json:"notes,omitempty"`
}

func vRunCase(h func(), c vReplayCase) (res vReplayResult) {
	vState.inputs = map[string]uint64{}
	for _, in := range c.Inputs {
		vState.inputs[in.Name] = in.Value
	}
	vState.failed = nil
	vState.observed = nil
	vState.notes = nil
	vState.env = c.Env
	vNativeReset()
	defer func() {
		res.Observed = vState.observed
		res.Notes = vState.notes
		if r := recover(); r != nil {
			switch r := r.(type) {
			case vSkip:
				res.Outcome = "skip"
			case vFailNow:
				res.Outcome = "fail"
				res.Site = r.site
			default:
				res.Outcome = "panic"
				res.Site = "no-panic"
				res.Msg = fmt.Sprintf("%v\n%s", r, debug.Stack())
			}
			return
		}
		res.Outcome = "ok"
	}()
	h()
	return
}

// TestVerifReplay runs the harness named in $VERIF_REPLAY natively on the
// input assignments listed there and writes one result per case to
// $VERIF_REPLAY_OUT.
func TestVerifReplay(t *testing.T) {
	path := os.Getenv("VERIF_REPLAY")
	if path == "" {
		t.Skip("VERIF_REPLAY not set")
	}
	b, err := os.ReadFile(path)
	if err != nil {
		t.Fatal(err)
	}
	var rf vReplayFile
	if err := json.Unmarshal(b, &rf); err != nil {
		t.Fatal(err)
	}
	runAll := func(rf vReplayFile) []vReplayResult {
		h := vHarnesses[rf.Harness]
		if h == nil {
			t.Fatalf("unknown harness %q", rf.Harness)
		}
		out := []vReplayResult{}
		for _, c := range rf.Cases {
			out = append(out, vRunCase(h, c))
		}
		return out
	}
	var js []byte
	if rf.Multi != nil {
		var outs [][]vReplayResult
		for _, e := range rf.Multi {
			outs = append(outs, runAll(e))
		}
		js, _ = json.MarshalIndent(outs, "", " ")
	} else {
		js, _ = json.MarshalIndent(runAll(rf), "", " ")
	}
	if o := os.Getenv("VERIF_REPLAY_OUT"); o != "" {
		if err := os.WriteFile(o, js, 0644); err != nil {
			t.Fatal(err)
		}
	} else {
		t.Logf("%s", js)
	}
}
