module github.com/blevesearch/go-faiss

go 1.21
