// Package faiss is a pure-Go stand-in for github.com/blevesearch/go-faiss with the
// API subset that blevesearch/zapx uses. It exists because the native FAISS
// library is not available in the verification sandbox. The index is an exact
// brute-force index (L2 / inner product) with a private serialisation, a
// ledger of live / closed / misused indexes and selectors, and an injectable
// failure at the n-th call of each operation. It honours the go-faiss API
// contract; it says nothing about real FAISS numerics or clustering.
package faiss

import (
	"encoding/binary"
	"encoding/json"
	"errors"
	"fmt"
	"math"
	"sort"
	"strings"
)

const (
	MetricInnerProduct = 0
	MetricL2           = 1
)

const (
	IOFlagMmap         = 1
	IOFlagReadOnly     = 2
	IOFlagReadMmap     = 4 | 0x646f0000
	IOFlagSkipPrefetch = 32
)

// ---- verification ledger and fault injection

type Ledger struct {
	Created        int // indexes created (factory or read)
	Closed         int // Close calls on live indexes
	DoubleClosed   int // Close calls on already closed indexes
	UsedAfterClose int // any other call on a closed index
	Live           int // created - closed
	SelCreated     int
	SelDeleted     int
	Calls          map[string]int
}

var ledger = Ledger{Calls: map[string]int{}}
var failAt = map[string]int{}

// VerifReset clears the ledger and the armed failures.
func VerifReset() {
	ledger = Ledger{Calls: map[string]int{}}
	failAt = map[string]int{}
}

// VerifLedger returns a copy of the ledger.
func VerifLedger() Ledger {
	l := ledger
	l.Live = l.Created - l.Closed
	return l
}

// VerifFail makes the n-th call (1-based) of operation op fail.
func VerifFail(op string, n int) { failAt[op] = n }

// VerifCalls returns how often op has been called.
func VerifCalls(op string) int { return ledger.Calls[op] }

var ErrInjected = errors.New("injected vector engine failure")

func enter(op string) error {
	ledger.Calls[op]++
	if n, ok := failAt[op]; ok && n == ledger.Calls[op] {
		return ErrInjected
	}
	return nil
}

// ---- index

type Index interface {
	D() int
	IsTrained() bool
	Ntotal() int64
	MetricType() int
	Train(x []float32) error
	Add(x []float32) error
	AddWithIDs(x []float32, xids []int64) error
	IsIVFIndex() bool
	ObtainClusterVectorCountsFromIVFIndex(vecIDs []int64) (map[int64]int64, error)
	ObtainClustersWithDistancesFromIVFIndex(x []float32, centroidIDs []int64) ([]int64, []float32, error)
	Search(x []float32, k int64) (distances []float32, labels []int64, err error)
	SearchWithoutIDs(x []float32, k int64, exclude []int64, params json.RawMessage) (distances []float32, labels []int64, err error)
	SearchWithIDs(x []float32, k int64, include []int64, params json.RawMessage) (distances []float32, labels []int64, err error)
	SearchClustersFromIVFIndex(selector Selector, eligibleCentroidIDs []int64, minEligibleCentroids int, k int64, x, centroidDis []float32, params json.RawMessage) ([]float32, []int64, error)
	Reconstruct(key int64) ([]float32, error)
	ReconstructBatch(keys []int64, recons []float32) ([]float32, error)
	MergeFrom(other Index, add_id int64) error
	Reset() error
	Close()
	Size() uint64
}

type IndexImpl struct {
	Index
}

type flatIndex struct {
	d       int
	metric  int
	desc    string
	ids     []int64
	vecs    [][]float32
	trained bool
	closed  bool
	nprobe  int32
}

func (f *flatIndex) use(op string) {
	if f.closed {
		ledger.UsedAfterClose++
	}
	_ = op
}

func (f *flatIndex) D() int          { f.use("D"); return f.d }
func (f *flatIndex) IsTrained() bool { f.use("IsTrained"); return f.trained || !f.IsIVFIndex() }
func (f *flatIndex) Ntotal() int64   { f.use("Ntotal"); return int64(len(f.ids)) }
func (f *flatIndex) MetricType() int { f.use("MetricType"); return f.metric }
func (f *flatIndex) IsIVFIndex() bool {
	return strings.HasPrefix(f.desc, "IVF")
}
func (f *flatIndex) Size() uint64 { f.use("Size"); return uint64(64 + len(f.ids)*(8+4*f.d)) }

func (f *flatIndex) Train(x []float32) error {
	f.use("Train")
	if err := enter("Train"); err != nil {
		return err
	}
	f.trained = true
	return nil
}

func (f *flatIndex) Add(x []float32) error {
	ids := make([]int64, len(x)/f.d)
	for i := range ids {
		ids[i] = int64(len(f.ids) + i)
	}
	return f.AddWithIDs(x, ids)
}

func (f *flatIndex) AddWithIDs(x []float32, xids []int64) error {
	f.use("AddWithIDs")
	if err := enter("AddWithIDs"); err != nil {
		return err
	}
	if f.d <= 0 || len(x) != len(xids)*f.d {
		return fmt.Errorf("AddWithIDs: %d floats for %d ids of dimension %d", len(x), len(xids), f.d)
	}
	for i, id := range xids {
		f.ids = append(f.ids, id)
		f.vecs = append(f.vecs, append([]float32(nil), x[i*f.d:(i+1)*f.d]...))
	}
	return nil
}

func (f *flatIndex) score(q, v []float32) float32 {
	var s float32
	if f.metric == MetricL2 {
		for i := range q {
			d := q[i] - v[i]
			s += d * d
		}
		return s
	}
	for i := range q {
		s += q[i] * v[i]
	}
	return s
}

// better reports whether score a ranks before score b for the metric.
func (f *flatIndex) better(a, b float32) bool {
	if f.metric == MetricL2 {
		return a < b
	}
	return a > b
}

func (f *flatIndex) search(x []float32, k int64, admit func(id int64) bool) ([]float32, []int64, error) {
	if k < 0 {
		return nil, nil, errors.New("negative k")
	}
	if f.d <= 0 || len(x) != f.d {
		return nil, nil, fmt.Errorf("query of %d floats for dimension %d", len(x), f.d)
	}
	type cand struct {
		id int64
		s  float32
	}
	var cs []cand
	for i, id := range f.ids {
		if admit == nil || admit(id) {
			cs = append(cs, cand{id, f.score(x, f.vecs[i])})
		}
	}
	sort.SliceStable(cs, func(i, j int) bool {
		if cs[i].s != cs[j].s {
			return f.better(cs[i].s, cs[j].s)
		}
		return cs[i].id < cs[j].id
	})
	dist := make([]float32, k)
	labels := make([]int64, k)
	for i := int64(0); i < k; i++ {
		if int(i) < len(cs) {
			dist[i], labels[i] = cs[i].s, cs[i].id
		} else {
			labels[i] = -1
			if f.metric == MetricL2 {
				dist[i] = float32(math.Inf(1))
			} else {
				dist[i] = float32(math.Inf(-1))
			}
		}
	}
	return dist, labels, nil
}

func (f *flatIndex) Search(x []float32, k int64) ([]float32, []int64, error) {
	f.use("Search")
	if err := enter("Search"); err != nil {
		return nil, nil, err
	}
	return f.search(x, k, nil)
}

func (f *flatIndex) SearchWithoutIDs(x []float32, k int64, exclude []int64, params json.RawMessage) ([]float32, []int64, error) {
	f.use("SearchWithoutIDs")
	if err := enter("Search"); err != nil {
		return nil, nil, err
	}
	ex := map[int64]bool{}
	for _, id := range exclude {
		ex[id] = true
	}
	return f.search(x, k, func(id int64) bool { return !ex[id] })
}

func (f *flatIndex) SearchWithIDs(x []float32, k int64, include []int64, params json.RawMessage) ([]float32, []int64, error) {
	f.use("SearchWithIDs")
	if err := enter("Search"); err != nil {
		return nil, nil, err
	}
	in := map[int64]bool{}
	for _, id := range include {
		in[id] = true
	}
	return f.search(x, k, func(id int64) bool { return in[id] })
}

// The clustered API is emulated with one cluster (id 0) holding every vector.
func (f *flatIndex) ObtainClusterVectorCountsFromIVFIndex(vecIDs []int64) (map[int64]int64, error) {
	f.use("ObtainClusterVectorCountsFromIVFIndex")
	if len(vecIDs) == 0 {
		return map[int64]int64{}, nil
	}
	return map[int64]int64{0: int64(len(vecIDs))}, nil
}

func (f *flatIndex) ObtainClustersWithDistancesFromIVFIndex(x []float32, centroidIDs []int64) ([]int64, []float32, error) {
	f.use("ObtainClustersWithDistancesFromIVFIndex")
	out := append([]int64(nil), centroidIDs...)
	return out, make([]float32, len(out)), nil
}

func (f *flatIndex) SearchClustersFromIVFIndex(selector Selector, eligibleCentroidIDs []int64, minEligibleCentroids int, k int64, x, centroidDis []float32, params json.RawMessage) ([]float32, []int64, error) {
	f.use("SearchClustersFromIVFIndex")
	if err := enter("Search"); err != nil {
		return nil, nil, err
	}
	return f.search(x, k, func(id int64) bool { return selector == nil || selector.admits(id) })
}

func (f *flatIndex) Reconstruct(key int64) ([]float32, error) {
	f.use("Reconstruct")
	for i, id := range f.ids {
		if id == key {
			return append([]float32(nil), f.vecs[i]...), nil
		}
	}
	return nil, fmt.Errorf("id %d not found", key)
}

func (f *flatIndex) ReconstructBatch(keys []int64, recons []float32) ([]float32, error) {
	f.use("ReconstructBatch")
	if err := enter("ReconstructBatch"); err != nil {
		return nil, err
	}
	recons = recons[:0]
	for _, k := range keys {
		v, err := f.Reconstruct(k)
		if err != nil {
			return nil, err
		}
		recons = append(recons, v...)
	}
	return recons, nil
}

func (f *flatIndex) MergeFrom(other Index, add_id int64) error {
	return errors.New("MergeFrom not supported by the stand-in")
}

func (f *flatIndex) Reset() error { f.use("Reset"); f.ids, f.vecs = nil, nil; return nil }

func (f *flatIndex) Close() {
	if f.closed {
		ledger.DoubleClosed++
		return
	}
	f.closed = true
	ledger.Closed++
}

func (idx *IndexImpl) SetDirectMap(mapType int) error {
	if err := enter("SetDirectMap"); err != nil {
		return err
	}
	return nil
}

func (idx *IndexImpl) SetNProbe(nprobe int32) { idx.Index.(*flatIndex).nprobe = nprobe }
func (idx *IndexImpl) GetNProbe() int32       { return idx.Index.(*flatIndex).nprobe }

func IndexFactory(d int, description string, metric int) (*IndexImpl, error) {
	if err := enter("IndexFactory"); err != nil {
		return nil, err
	}
	if d <= 0 {
		return nil, errors.New("dimension must be positive")
	}
	ledger.Created++
	return &IndexImpl{&flatIndex{d: d, metric: metric, desc: description}}, nil
}

func SetOMPThreads(n uint) {}

const magic = "ZFAKE1"

func WriteIndexIntoBuffer(idx Index) ([]byte, error) {
	if err := enter("WriteIndexIntoBuffer"); err != nil {
		return nil, err
	}
	var f *flatIndex
	switch x := idx.(type) {
	case *IndexImpl:
		f = x.Index.(*flatIndex)
	case *flatIndex:
		f = x
	default:
		return nil, errors.New("unknown index type")
	}
	f.use("WriteIndexIntoBuffer")
	var b []byte
	b = append(b, magic...)
	b = binary.AppendUvarint(b, uint64(f.d))
	b = binary.AppendUvarint(b, uint64(f.metric))
	b = binary.AppendUvarint(b, uint64(len(f.desc)))
	b = append(b, f.desc...)
	b = binary.AppendUvarint(b, uint64(len(f.ids)))
	for i, id := range f.ids {
		b = binary.AppendVarint(b, id)
		for _, x := range f.vecs[i] {
			b = binary.LittleEndian.AppendUint32(b, math.Float32bits(x))
		}
	}
	return b, nil
}

func ReadIndexFromBuffer(buf []byte, ioflags int) (*IndexImpl, error) {
	if err := enter("ReadIndexFromBuffer"); err != nil {
		return nil, err
	}
	if len(buf) < len(magic) || string(buf[:len(magic)]) != magic {
		return nil, errors.New("not a stand-in index")
	}
	p := len(magic)
	rd := func() uint64 {
		v, n := binary.Uvarint(buf[p:])
		p += n
		return v
	}
	f := &flatIndex{}
	f.d = int(rd())
	f.metric = int(rd())
	dl := int(rd())
	f.desc = string(buf[p : p+dl])
	p += dl
	n := int(rd())
	for i := 0; i < n; i++ {
		id, k := binary.Varint(buf[p:])
		p += k
		v := make([]float32, f.d)
		for j := range v {
			v[j] = math.Float32frombits(binary.LittleEndian.Uint32(buf[p:]))
			p += 4
		}
		f.ids = append(f.ids, id)
		f.vecs = append(f.vecs, v)
	}
	f.trained = true
	ledger.Created++
	return &IndexImpl{f}, nil
}

// ---- selectors

type Selector interface {
	Delete()
	admits(id int64) bool
}

type batchSelector struct {
	ids     map[int64]bool
	not     bool
	deleted bool
}

func (s *batchSelector) Delete() {
	if !s.deleted {
		s.deleted = true
		ledger.SelDeleted++
	}
}

func (s *batchSelector) admits(id int64) bool { return s.ids[id] != s.not }

func newSel(ids []int64, not bool) (Selector, error) {
	if err := enter("NewIDSelector"); err != nil {
		return nil, err
	}
	m := map[int64]bool{}
	for _, id := range ids {
		m[id] = true
	}
	ledger.SelCreated++
	return &batchSelector{ids: m, not: not}, nil
}

func NewIDSelectorBatch(indices []int64) (Selector, error) { return newSel(indices, false) }
func NewIDSelectorNot(exclude []int64) (Selector, error)   { return newSel(exclude, true) }

// Ledger accessors (plain ints, convenient for harnesses).
func VerifLive() int           { return ledger.Created - ledger.Closed }
func VerifCreated() int        { return ledger.Created }
func VerifClosed() int         { return ledger.Closed }
func VerifDoubleClosed() int   { return ledger.DoubleClosed }
func VerifUsedAfterClose() int { return ledger.UsedAfterClose }
func VerifSelectorsLive() int  { return ledger.SelCreated - ledger.SelDeleted }
