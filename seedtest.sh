#!/bin/sh
# seedtest.sh <seed-dir-name> <property> [tier]: apply a seeded change to /repo, run the property's check, undo.
seed=$1; prop=$2; tier=${3:-quick}
cd /repo && git apply /verif/seeded/$seed/patch.diff || { echo "patch does not apply"; exit 9; }
cd /verif && ./check $prop $tier > /tmp/seedtest-$seed-$prop.out 2>&1; rc=$?
git -C /repo checkout -- .
echo "seed=$seed prop=$prop tier=$tier exit=$rc $(grep -c '^VIOLATION' /tmp/seedtest-$seed-$prop.out) violation lines; $(grep '^check ' /tmp/seedtest-$seed-$prop.out)"
