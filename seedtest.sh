#!/bin/sh
# seedtest.sh <seed-dir-name> <property> [tier]: apply a seeded change to a scratch worktree of /repo (never to
# /repo itself), run the property's check against it (VERIF_REPO), remove the worktree.
here=$(cd "$(dirname "$0")" && pwd)
seed=$1; prop=$2; tier=${3:-quick}
wt=/tmp/wt-seedtest-$$
git -C /repo worktree add -q --detach $wt HEAD || exit 9
( cd $wt && git apply $here/seeded/$seed/patch.diff ) || { echo "patch does not apply"; git -C /repo worktree remove --force $wt; exit 9; }
ev=$here/evidence/$prop.json
cp $ev /tmp/ev-keep-$$.json 2>/dev/null
cd $here && VERIF_REPO=$wt ./check $prop $tier > /tmp/seedtest-$seed-$prop.out 2>&1; rc=$?
cp /tmp/ev-keep-$$.json $ev 2>/dev/null; rm -f /tmp/ev-keep-$$.json   # evidence files only ever describe /repo itself
git -C /repo worktree remove --force $wt
echo "seed=$seed prop=$prop tier=$tier exit=$rc $(grep -c '^VIOLATION' /tmp/seedtest-$seed-$prop.out) violation lines; $(grep '^check ' /tmp/seedtest-$seed-$prop.out)"
