package interp

import (
	"fmt"
	"hash/fnv"
	"os"
	"runtime/debug"
	"sort"
	"time"

	"golang.org/x/tools/go/ssa"

	"zsx/solve"
	"zsx/term"
)

const (
	dBranch = iota
	dConc
	dAssume
)

type Decision struct {
	Kind     int
	Cond     *term.Term // branch/assume: condition; concretise: the term
	Val      uint64
	Dir      bool
	AltOpen  bool
	AltModel term.Model
	Label    string
}

func (d *Decision) pcTerm(st *term.Store) *term.Term {
	switch d.Kind {
	case dConc:
		eq := st.Eq(d.Cond, st.BV(d.Cond.W, d.Val))
		if d.Cond.W == 0 {
			eq = st.Eq(d.Cond, st.Bool(d.Val == 1))
		}
		if d.Dir {
			return eq
		}
		return st.Not(eq)
	case dAssume:
		return d.Cond
	}
	if d.Dir {
		return d.Cond
	}
	return st.Not(d.Cond)
}

type Violation struct {
	Site   string            `json:"site"`
	Msg    string            `json:"msg"`
	Model  map[string]uint64 `json:"model"`
	Inputs []InputRec        `json:"inputs"`
	Path   string            `json:"path"`
}

type InputRec struct {
	Name  string `json:"name"`
	W     int    `json:"w"`
	Value uint64 `json:"value"`
}

type PathSample struct {
	Outcome   string     `json:"outcome"`
	Decisions string     `json:"decisions"`
	Inputs    []InputRec `json:"inputs"`
	Observed  []string   `json:"observed,omitempty"`
	Steps     int64      `json:"ssa_steps"`
}

type Result struct {
	Harness        string           `json:"harness"`
	Paths          int              `json:"paths"`
	PathsOK        int              `json:"paths_ok"`
	Outcomes       map[string]int   `json:"outcomes"`
	Sites          map[string]int   `json:"assertion_sites"`
	Violations     []Violation      `json:"violations"`
	Incomplete     []string         `json:"incomplete"`
	Exhaustive     bool             `json:"exhaustive"`
	Queries        solve.Stats      `json:"queries"`
	Functions      map[string]int   `json:"functions_encoded"`
	Samples        []PathSample     `json:"samples"`
	ValidateModels []ValidationCase `json:"validate_models,omitempty"`
	WallS          float64          `json:"wall_s"`
	Steps          int64            `json:"ssa_steps"`
	Disagree       []string         `json:"solver_disagreements,omitempty"`
	MaxDepth       int              `json:"max_decisions"`
	Notes          []string         `json:"notes,omitempty"`
}

// ValidationCase is a passing path whose observations are to be re-checked natively.
type ValidationCase struct {
	Inputs   []InputRec `json:"inputs"`
	Observed []string   `json:"observed"`
}

type Explorer struct {
	In  *Interp
	Res *Result

	Decs      []Decision
	pos       int
	prefixLen int
	model     term.Model

	MaxPaths    int
	Deadline    time.Time
	ShardI      int
	ShardN      int
	ShardDepth  int
	ReverseMaps bool
	ConcCap     int
	MaxViol     int
	NSamples    int
	NValidate   int
	Seed        int64
	Fix         map[string]uint64
	PinRest     bool // inputs without a pinned value are 0 (set by vPin; concrete corpus instances)
	SkipKnown   map[string]bool
	Params      map[string]int

	// per path
	inputs      []InputRec
	inputSet    map[string]*term.Term
	observed    []obsRec
	expectPanic int
	owned       bool
	env         *term.RangeEnv
	Filtered    int
	pending     []pendingAssert
	realDecs    int
	NoBatch     bool
}

type obsRec struct {
	name string
	val  Value
}

func NewExplorer(in *Interp) *Explorer {
	x := &Explorer{In: in, MaxPaths: 1 << 30, ShardN: 1, ShardDepth: 10, ConcCap: 64, MaxViol: 3, NSamples: 3}
	in.X = x
	return x
}

func (x *Explorer) st() *term.Store { return x.In.T }

func (x *Explorer) incomplete(msg string) {
	for _, m := range x.Res.Incomplete {
		if m == msg {
			return
		}
	}
	if len(x.Res.Incomplete) < 50 {
		x.Res.Incomplete = append(x.Res.Incomplete, msg)
	}
}

// ensureModel makes sure x.model satisfies the current path condition.
func (x *Explorer) ensureModel() {
	if x.model != nil {
		return
	}
	r, m := x.In.S.Check(nil, true, false)
	if r != solve.Sat {
		panic(abortPath{"engine", "path condition not satisfiable or unknown: " + r.String()})
	}
	x.model = m
}

func (x *Explorer) push(d Decision) {
	x.Decs = append(x.Decs, d)
	pt := d.pcTerm(x.st())
	x.In.S.Push(pt)
	x.env.Assume(pt)
	x.pos = len(x.Decs)
	if len(x.Decs) > x.Res.MaxDepth {
		x.Res.MaxDepth = len(x.Decs)
	}
	if d.Kind != dAssume {
		x.tick()
	}
}

var debugBranches = os.Getenv("ZSX_DEBUG_BRANCHES") != ""
var paranoidMode = os.Getenv("ZSX_PARANOID") != ""

// paranoid (self-test mode): everything the interval filter decides is re-decided by the solver.
func (x *Explorer) paranoid(opposite *term.Term, what string) {
	if !paranoidMode {
		return
	}
	if r, _ := x.In.S.Check(opposite, false, false); r == solve.Sat {
		x.incomplete("FILTER UNSOUND: " + what + ": " + truncate(opposite.String(), 200))
		fmt.Fprintf(os.Stderr, "zsx: FILTER UNSOUND: %s: %s\n", what, truncate(opposite.String(), 300))
	}
}

// tick counts a non-assume decision (new or replayed) and enforces shard ownership at the shard depth.
func (x *Explorer) tick() {
	x.realDecs++
	if x.ShardN > 1 && x.realDecs == x.ShardDepth && !x.ownsPrefix() {
		panic(abortPath{"notowned", ""})
	}
}

func (x *Explorer) ownsPrefix() bool {
	if x.ShardN <= 1 {
		return true
	}
	h := fnv.New32a()
	n := 0
	for _, d := range x.Decs {
		if d.Kind == dAssume {
			continue
		}
		if n >= x.ShardDepth {
			break
		}
		n++
		b := byte(0)
		if d.Dir {
			b = 1
		}
		h.Write([]byte{b, byte(d.Kind), byte(d.Val), byte(d.Val >> 8)})
	}
	// FNV's low bits depend on the low bits of the input bytes only (the inputs here are nearly all 0/1):
	// mix before reducing (murmur3 finaliser)
	v := h.Sum32()
	v ^= v >> 16
	v *= 0x85ebca6b
	v ^= v >> 13
	v *= 0xc2b2ae35
	v ^= v >> 16
	return int(v%uint32(x.ShardN)) == x.ShardI
}

// branch decides a (possibly symbolic) condition and returns the direction taken.
func (in *Interp) branch(c Value, label string) bool {
	switch c := c.(type) {
	case bool:
		return c
	case *term.Term:
		return in.X.branchSym(c, label)
	}
	panic(fmt.Sprintf("branch on %T", c))
}

func (x *Explorer) branchSym(c *term.Term, label string) bool {
	switch x.env.Tri(c) {
	case 1:
		x.Filtered++
		x.paranoid(x.st().Not(c), "filter said always true")
		return true
	case 0:
		x.Filtered++
		x.paranoid(c, "filter said always false")
		return false
	}
	if x.pos < len(x.Decs) {
		d := &x.Decs[x.pos]
		if d.Kind != dBranch || d.Cond != c {
			panic(abortPath{"engine", fmt.Sprintf("non-deterministic replay at decision %d: have %v want %v", x.pos, c, d.Cond)})
		}
		x.pos++
		x.env.Assume(d.pcTerm(x.st()))
		x.tick()
		return d.Dir
	}
	st := x.st()
	x.ensureModel()
	if debugBranches {
		fmt.Fprintf(os.Stderr, "BR %s\n", truncate(c.String(), 200))
	}
	var dir bool
	known := false
	if v, ok := term.Eval(c, x.model); ok {
		dir, known = v == 1, true
	}
	d := Decision{Kind: dBranch, Cond: c, Label: label}
	if known {
		alt := c
		if dir {
			alt = st.Not(c)
		}
		r, m := x.In.S.Check(alt, true, false)
		switch r {
		case solve.Sat:
			d.AltOpen, d.AltModel = true, m
		case solve.Unknown:
			x.incomplete("branch alternative undecided (solver unknown) at " + label)
		}
		d.Dir = dir
	} else {
		rt, mt := x.In.S.Check(c, true, false)
		rf, mf := x.In.S.Check(st.Not(c), true, false)
		switch {
		case rt == solve.Sat:
			d.Dir = true
			x.model = mt
			if rf == solve.Sat {
				d.AltOpen, d.AltModel = true, mf
			} else if rf == solve.Unknown {
				x.incomplete("branch alternative undecided (solver unknown) at " + label)
			}
		case rf == solve.Sat:
			d.Dir = false
			x.model = mf
			if rt == solve.Unknown {
				x.incomplete("branch alternative undecided (solver unknown) at " + label)
			}
		default:
			panic(abortPath{"undecided", "neither branch direction could be shown feasible"})
		}
	}
	x.push(d)
	return d.Dir
}

// concretize picks a concrete value for t (forking over all feasible values).
func (in *Interp) concretize(t *term.Term, what string) uint64 {
	if t.IsConst() {
		return t.K
	}
	return in.X.concretize(t, what)
}

func (x *Explorer) concretize(t *term.Term, what string) uint64 {
	st := x.st()
	count := 0
	for {
		if t.W > 0 {
			if r := x.env.Of(t); r.Lo == r.Hi {
				x.Filtered++
				x.paranoid(x.st().Not(x.st().Eq(t, x.st().BV(t.W, r.Lo))), "filter said single value")
				return r.Lo
			}
		}
		if x.pos < len(x.Decs) {
			d := &x.Decs[x.pos]
			if d.Kind != dConc || d.Cond != t {
				panic(abortPath{"engine", fmt.Sprintf("non-deterministic replay (concretise %s) at decision %d", what, x.pos)})
			}
			x.pos++
			x.env.Assume(d.pcTerm(x.st()))
			x.tick()
			if d.Dir {
				return d.Val
			}
			count++
			continue
		}
		if count >= x.ConcCap {
			x.incomplete("concretisation cap reached at " + what)
			panic(abortPath{"budget", "concretisation cap at " + what})
		}
		x.ensureModel()
		v, ok := term.Eval(t, x.model)
		if !ok {
			panic(abortPath{"unsupported", "concretise term with uninterpreted function: " + what})
		}
		// canonical order: always the smallest feasible value first, so that the decision tree does not
		// depend on which model the solver happened to return (shards must agree on it)
		if t.W > 0 {
			for tries := 0; tries < 70; tries++ {
				if r := x.env.Of(t); v <= r.Lo {
					break
				}
				rs, m := x.In.S.Check(st.Cmp(term.OULt, t, st.BV(t.W, v)), true, false)
				if rs != solve.Sat {
					if rs == solve.Unknown {
						x.incomplete("concretisation order undecided at " + what)
					}
					break
				}
				nv, ok2 := term.Eval(t, m)
				if !ok2 || nv >= v {
					break
				}
				v = nv
				x.model = m
			}
		} else if v == 1 {
			// Bool: false first
			if rs, m := x.In.S.Check(st.Not(t), true, false); rs == solve.Sat {
				v = 0
				x.model = m
			}
		}
		d := Decision{Kind: dConc, Cond: t, Val: v, Dir: true, Label: what}
		neq := st.Not(d.pcTerm(st))
		r, m := x.In.S.Check(neq, true, false)
		switch r {
		case solve.Sat:
			d.AltOpen, d.AltModel = true, m
		case solve.Unknown:
			x.incomplete("concretisation alternative undecided at " + what)
		}
		x.push(d)
		return v
	}
}

func (x *Explorer) assume(c Value) {
	switch c := c.(type) {
	case bool:
		if !c {
			panic(abortPath{"assume", ""})
		}
	case *term.Term:
		switch x.env.Tri(c) {
		case 1:
			return
		case 0:
			panic(abortPath{"assume", ""})
		}
		if x.pos < len(x.Decs) {
			d := &x.Decs[x.pos]
			if d.Kind != dAssume || d.Cond != c {
				panic(abortPath{"engine", fmt.Sprintf("non-deterministic replay (assume) at decision %d", x.pos)})
			}
			x.pos++
			x.env.Assume(c)
			return
		}
		x.flushAsserts()
		x.ensureModel()
		if v, ok := term.Eval(c, x.model); !ok || v != 1 {
			r, m := x.In.S.Check(c, true, false)
			switch r {
			case solve.Unsat:
				panic(abortPath{"assume", ""})
			case solve.Unknown:
				x.incomplete("assumption undecided")
				panic(abortPath{"undecided", "assumption"})
			}
			x.model = m
		}
		x.push(Decision{Kind: dAssume, Cond: c, Dir: true})
	}
}

func (x *Explorer) assert(c Value, site string) {
	switch c := c.(type) {
	case bool:
		x.Res.Sites[site]++
		if !c {
			x.ensureModel()
			x.violation(site, "assertion is false on this path", x.model)
		}
	case *term.Term:
		x.Res.Sites[site]++
		// deferred: all assertions of a path are decided by one query at the end of the path (or
		// before the next assumption, which would otherwise weaken them)
		x.pending = append(x.pending, pendingAssert{c, site})
		if x.NoBatch {
			x.flushAsserts()
		}
	}
}

type pendingAssert struct {
	c    *term.Term
	site string
}

// flushAsserts decides the pending assertions: PC and not (a1 and ... and an).
func (x *Explorer) flushAsserts() {
	if len(x.pending) == 0 {
		return
	}
	pend := x.pending
	x.pending = nil
	st := x.st()
	conj := st.Bool(true)
	for _, p := range pend {
		conj = st.And(conj, p.c)
	}
	r, m := x.In.S.Check(st.Not(conj), true, true)
	switch r {
	case solve.Sat:
		for _, p := range pend {
			if v, ok := term.Eval(p.c, m); ok && v == 0 {
				x.violation(p.site, "assertion can be false: "+truncate(p.c.String(), 300), m)
			}
		}
		// the model falsifies the conjunction only through uninterpreted terms: decide one by one
		for _, p := range pend {
			r1, m1 := x.In.S.Check(st.Not(p.c), true, true)
			if r1 == solve.Sat {
				x.violation(p.site, "assertion can be false: "+truncate(p.c.String(), 300), m1)
			}
			if r1 == solve.Unknown {
				x.incomplete("assertion undecided at site " + p.site)
				x.Res.Outcomes["assert-undecided"]++
			}
		}
	case solve.Unknown:
		// retry one by one
		for _, p := range pend {
			r1, m1 := x.In.S.Check(st.Not(p.c), true, true)
			if r1 == solve.Sat {
				x.violation(p.site, "assertion can be false: "+truncate(p.c.String(), 300), m1)
			}
			if r1 == solve.Unknown {
				x.incomplete("assertion undecided at site " + p.site)
				x.Res.Outcomes["assert-undecided"]++
			}
		}
	}
}

func truncate(s string, n int) string {
	if len(s) > n {
		return s[:n] + "…"
	}
	return s
}

func (x *Explorer) violation(site, msg string, m term.Model) {
	v := Violation{Site: site, Msg: msg, Model: map[string]uint64{}, Path: x.decString()}
	for _, ir := range x.inputs {
		val, _ := term.Eval(x.inputSet[ir.Name], m)
		v.Inputs = append(v.Inputs, InputRec{ir.Name, ir.W, val})
	}
	if len(x.Res.Violations) < x.MaxViol {
		x.Res.Violations = append(x.Res.Violations, v)
	}
	panic(abortPath{"violation", site + ": " + msg})
}

func (x *Explorer) decString() string {
	b := make([]byte, 0, len(x.Decs))
	for _, d := range x.Decs {
		switch {
		case d.Kind == dAssume:
			b = append(b, 'a')
		case d.Kind == dConc && d.Dir:
			b = append(b, fmt.Sprintf("=%d(%s),", d.Val, d.Label)...)
		case d.Kind == dConc:
			b = append(b, '!')
		case d.Dir:
			b = append(b, 'T')
		default:
			b = append(b, 'F')
		}
	}
	if len(b) > 400 {
		b = append(b[:400], "…"...)
	}
	return string(b)
}

// input registers (or re-uses) a named symbolic input.
func (x *Explorer) input(name string, w int) Value {
	if t, ok := x.inputSet[name]; ok {
		return x.In.simpFix(t)
	}
	t := x.st().Var(name, w)
	x.inputSet[name] = t
	x.inputs = append(x.inputs, InputRec{Name: name, W: w})
	fv, ok := x.Fix[name]
	if !ok && x.PinRest {
		fv, ok = 0, true
	}
	if ok {
		if w == 0 {
			x.assume(x.In.simp(x.st().Eq(t, x.st().Bool(fv == 1))))
		} else {
			x.assume(x.In.simp(x.st().Eq(t, x.st().BV(w, fv))))
		}
	}
	return t
}

func (in *Interp) simpFix(t *term.Term) Value { return t }

// noteInput records a concrete environment fact among the inputs of the path (for native replay).
func (x *Explorer) noteInput(name string, v uint64) {
	if _, ok := x.inputSet[name]; !ok {
		x.inputs = append(x.inputs, InputRec{Name: name, W: 64})
	}
	x.inputSet[name] = x.st().BV(64, v)
}

func (x *Explorer) inputsUnder(m term.Model) []InputRec {
	out := make([]InputRec, len(x.inputs))
	for i, ir := range x.inputs {
		v, _ := term.Eval(x.inputSet[ir.Name], m)
		out[i] = InputRec{ir.Name, ir.W, v}
	}
	return out
}

// Explore runs the harness over all feasible paths.
func (x *Explorer) Explore(h *ssa.Function) *Result {
	t0 := time.Now()
	x.Res = &Result{Harness: h.Name(), Outcomes: map[string]int{}, Sites: map[string]int{}}
	x.Decs = nil
	x.prefixLen = 0
	x.model = nil
	in := x.In
	cut := false
	for {
		if x.Res.Paths >= x.MaxPaths {
			x.incomplete(fmt.Sprintf("path budget %d exhausted", x.MaxPaths))
			cut = true
			break
		}
		if !x.Deadline.IsZero() && time.Now().After(x.Deadline) {
			x.incomplete("wall-clock budget exhausted")
			cut = true
			break
		}
		outcome := x.runOnce(h)
		if outcome != "notowned" {
			x.Res.Paths++
		}
		x.Res.Outcomes[outcome]++
		x.Res.Steps += in.steps
		if len(x.Res.Violations) >= x.MaxViol {
			x.incomplete("stopped after first violations")
			cut = true
			break
		}
		// backtrack
		found := false
		for len(x.Decs) > 0 {
			d := &x.Decs[len(x.Decs)-1]
			if d.AltOpen {
				d.AltOpen = false
				d.Dir = !d.Dir
				x.model = d.AltModel
				d.AltModel = nil
				in.S.PopTo(len(x.Decs) - 1)
				in.S.Push(d.pcTerm(x.st()))
				x.prefixLen = len(x.Decs)
				found = true
				break
			}
			x.Decs = x.Decs[:len(x.Decs)-1]
		}
		if !found {
			break
		}
	}
	in.S.PopTo(0)
	x.Res.PathsOK = x.Res.Outcomes["ok"]
	x.Res.Exhaustive = !cut && len(x.Res.Incomplete) == 0
	x.Res.Queries = in.S.Stats()
	x.Res.Functions = map[string]int{}
	for k, v := range in.FnSeen {
		x.Res.Functions[k] = v
	}
	x.Res.Disagree = in.S.Disagree
	x.Res.WallS = time.Since(t0).Seconds()
	return x.Res
}

func (x *Explorer) runOnce(h *ssa.Function) (outcome string) {
	in := x.In
	in.resetRun()
	x.pos = 0
	x.inputs = nil
	x.inputSet = map[string]*term.Term{}
	x.observed = nil
	x.expectPanic = 0
	x.env = term.NewRangeEnv()
	x.realDecs = 0
	in.S.PopTo(x.prefixLen)
	if len(x.Decs) > x.prefixLen {
		x.Decs = x.Decs[:x.prefixLen]
	}
	defer func() {
		r := recover()
		if r == nil {
			return
		}
		if ap, ok := r.(abortPath); !ok || (ap.Kind != "violation" && ap.Kind != "engine" && ap.Kind != "notowned") {
			// assertions passed before the path ended abnormally still have to be decided
			func() {
				defer func() {
					if r2 := recover(); r2 != nil {
						if ap2, ok := r2.(abortPath); ok && ap2.Kind == "violation" {
							r = r2
						}
					}
				}()
				x.flushAsserts()
			}()
		}
		switch r := r.(type) {
		case abortPath:
			outcome = r.Kind
			switch r.Kind {
			case "unsupported", "budget", "engine", "undecided":
				x.incomplete(r.Kind + ": " + r.Msg)
				if r.Kind == "engine" {
					fmt.Fprintf(os.Stderr, "zsx: engine: %s\n", r.Msg)
				}
			}
		case goPanic:
			// an unexpected panic of the program under test is a violation
			outcome = "violation"
			func() {
				defer func() { recover() }()
				x.ensureModel()
				x.violation("no-panic", "unexpected "+r.Msg, x.model)
			}()
		default:
			outcome = "engine"
			x.incomplete(fmt.Sprintf("engine panic: %v", r))
			fmt.Fprintf(os.Stderr, "zsx: engine panic: %v\n%s\n", r, debug.Stack())
		}
		x.sample(outcome)
	}()
	x.pending = nil
	in.ensureInit(in.MainPkg)
	in.callFn(h, nil, nil, nil)
	x.flushAsserts()
	if x.ShardN > 1 && x.realDecs < x.ShardDepth && !x.ownsPrefix() {
		return "notowned"
	}
	outcome = "ok"
	x.sample(outcome)
	return
}

var dumpPaths = os.Getenv("ZSX_DUMP_PATHS")

func (x *Explorer) sample(outcome string) {
	if dumpPaths != "" {
		f, _ := os.OpenFile(dumpPaths, os.O_APPEND|os.O_CREATE|os.O_WRONLY, 0644)
		fmt.Fprintf(f, "%s %s\n", outcome, x.decString())
		f.Close()
	}
	take := false
	if len(x.Res.Samples) < x.NSamples && (outcome == "ok" || outcome == "violation") {
		take = true
	}
	wantVal := outcome == "ok" && len(x.Res.ValidateModels) < x.NValidate
	if !take && !wantVal {
		return
	}
	defer func() { recover() }()
	x.ensureModel()
	ins := x.inputsUnder(x.model)
	var obs []string
	for _, o := range x.observed {
		obs = append(obs, o.name+"="+x.renderUnder(o.val, x.model))
	}
	if take {
		x.Res.Samples = append(x.Res.Samples, PathSample{Outcome: outcome, Decisions: x.decString(), Inputs: ins, Observed: obs, Steps: x.In.steps})
	}
	if wantVal {
		x.Res.ValidateModels = append(x.Res.ValidateModels, ValidationCase{Inputs: ins, Observed: obs})
	}
}

// renderUnder renders a value with symbolic parts evaluated under m.
func (x *Explorer) renderUnder(v Value, m term.Model) string {
	return render(x.evalDeep(v, m, 0))
}

func (x *Explorer) evalDeep(v Value, m term.Model, depth int) Value {
	if depth > 8 {
		return v
	}
	switch v := v.(type) {
	case *term.Term:
		r, ok := term.Eval(v, m)
		if !ok {
			return "<uf>"
		}
		if v.W == 0 {
			return r == 1
		}
		return r
	case Struct:
		c := make(Struct, len(v))
		for i := range v {
			c[i] = x.evalDeep(v[i], m, depth+1)
		}
		return c
	case Array:
		c := make(Array, len(v))
		for i := range v {
			c[i] = x.evalDeep(v[i], m, depth+1)
		}
		return c
	case Slice:
		if v.A == nil {
			return v
		}
		c := make([]Value, len(v.A))
		for i := range v.A {
			c[i] = x.evalDeep(v.A[i], m, depth+1)
		}
		return Slice{c}
	case Iface:
		return Iface{v.T, x.evalDeep(v.V, m, depth+1)}
	}
	return v
}

func (in *Interp) runSpawned() {
	for len(in.spawned) > 0 {
		f := in.spawned[0]
		in.spawned = in.spawned[1:]
		f()
	}
}

func sortedKeys(m map[string]int) []string {
	var ks []string
	for k := range m {
		ks = append(ks, k)
	}
	sort.Strings(ks)
	return ks
}
