package interp

import (
	"fmt"
	"go/token"
	"go/types"
	"os"
	"strings"
	"unicode/utf8"
	"unsafe"

	"golang.org/x/tools/go/ssa"

	"zsx/solve"
	"zsx/term"
)

// abortPath ends the current path without a verdict (or with one, see kind).
type abortPath struct {
	Kind string // "unsupported", "budget", "assume", "violation", "notowned", "engine"
	Msg  string
}

// goPanic is a panic of the interpreted program.
type goPanic struct {
	Val Value
	Msg string
}

type fnInfo struct {
	index map[uintptr]int // slot of a parameter / free variable / register, keyed by the value's address
	n     int
}

type deferred struct {
	fn   Value
	args []Value
	call *ssa.CallCommon
}

type frame struct {
	in        *Interp
	fn        *ssa.Function
	caller    *frame
	locals    []Value
	info      *fnInfo
	block     *ssa.BasicBlock
	prev      *ssa.BasicBlock
	defers    []deferred
	result    Value
	panicking bool
	panicVal  goPanic
	depth     int
}

type Interp struct {
	Prog    *ssa.Program
	MainPkg *ssa.Package
	T       *term.Store
	S       *solve.Solver
	X       *Explorer

	InterpPkgs map[string]bool

	fnInfos  map[*ssa.Function]*fnInfo
	intrCach map[*ssa.Function]Intrinsic
	initSnap map[*ssa.Package]map[*ssa.Global]*Value
	built    map[*ssa.Package]bool
	FnSeen   map[string]int

	// per-run state
	globals  map[*ssa.Global]*Value
	initDone map[*ssa.Package]bool
	inInit   int
	steps    int64
	MaxSteps int64
	spawned  []func()
	ghost    *ghostState
	depth    int
	Trace    bool
	Verbose  bool
}

func NewInterp(prog *ssa.Program, mainPkg *ssa.Package, st *term.Store, sv *solve.Solver) *Interp {
	in := &Interp{Prog: prog, MainPkg: mainPkg, T: st, S: sv,
		fnInfos: map[*ssa.Function]*fnInfo{}, intrCach: map[*ssa.Function]Intrinsic{}, initSnap: map[*ssa.Package]map[*ssa.Global]*Value{},
		built: map[*ssa.Package]bool{}, FnSeen: map[string]int{}, MaxSteps: 50_000_000,
		InterpPkgs: map[string]bool{}}
	for _, p := range []string{
		mainPkg.Pkg.Path(),
		"encoding/binary", "bytes", "bufio", "io", "errors", "sort", "math/bits", "unicode/utf8",
		"strings", "slices", "cmp", "container/heap", "internal/itoa", "strconv", "unicode", "math",
		"github.com/blevesearch/bleve_index_api", "github.com/blevesearch/scorch_segment_api/v2",
		"internal/byteorder", "iter", "maps", "github.com/bits-and-blooms/bitset", "encoding/json",
	} {
		in.InterpPkgs[p] = true
	}
	return in
}

// resetHooks reset native-side state (stand-in engine ledger, counters) at the start of every run.
var resetHooks []func()

// StepProfile (ZSX_STEP_PROFILE=1): SSA steps per function, for finding hot loops.
var stepProfile map[string]int64

func init() {
	if os.Getenv("ZSX_STEP_PROFILE") != "" {
		stepProfile = map[string]int64{}
	}
}

func StepProfile() map[string]int64 { return stepProfile }

func (in *Interp) resetRun() {
	for _, h := range resetHooks {
		h()
	}
	in.globals = map[*ssa.Global]*Value{}
	in.initDone = map[*ssa.Package]bool{}
	in.steps = 0
	in.spawned = nil
	in.ghost = newGhostState()
	in.depth = 0
}

func (in *Interp) info(fn *ssa.Function) *fnInfo {
	if fi, ok := in.fnInfos[fn]; ok {
		return fi
	}
	fi := &fnInfo{index: map[uintptr]int{}}
	add := func(v ssa.Value) {
		fi.index[valKey(v)] = fi.n
		fi.n++
	}
	for _, p := range fn.Params {
		add(p)
	}
	for _, p := range fn.FreeVars {
		add(p)
	}
	for _, b := range fn.Blocks {
		for _, ins := range b.Instrs {
			if v, ok := ins.(ssa.Value); ok {
				add(v)
			}
		}
	}
	in.fnInfos[fn] = fi
	return fi
}

func (fr *frame) get(v ssa.Value) Value {
	switch v := v.(type) {
	case *ssa.Const:
		return fr.in.constValue(v)
	case *ssa.Global:
		return fr.in.global(v)
	case *ssa.Function:
		return v
	case *ssa.Builtin:
		return v
	case nil:
		return nil
	}
	i, ok := fr.info.index[valKey(v)]
	if !ok {
		panic(fmt.Sprintf("get: no slot for %T %v in %s", v, v.Name(), fr.fn))
	}
	return fr.locals[i]
}

func (fr *frame) set(v ssa.Value, x Value) { fr.locals[fr.info.index[valKey(v)]] = x }

// valKey is the address held in the interface (every ssa.Value is a pointer; the SSA program keeps them alive).
func valKey(v ssa.Value) uintptr { return (*[2]uintptr)(unsafe.Pointer(&v))[1] }

func (in *Interp) global(g *ssa.Global) *Value {
	if p, ok := in.globals[g]; ok {
		return p
	}
	p := new(Value)
	if nv, ok := nativeGlobals[g.String()]; ok {
		*p = nv(in)
	} else {
		*p = in.zero(g.Type().(*types.Pointer).Elem())
	}
	in.globals[g] = p
	if g.Pkg != nil && in.InterpPkgs[g.Pkg.Pkg.Path()] {
		in.ensureInit(g.Pkg)
		return in.globals[g] // (a restored initialisation snapshot may have replaced the cell)
	}
	return p
}

// ensureInit runs the package initializer of an interpreted package once per run.
func (in *Interp) ensureInit(p *ssa.Package) {
	if in.initDone[p] {
		return
	}
	in.initDone[p] = true
	in.buildPkg(p)
	initFn := p.Func("init")
	if initFn == nil {
		return
	}
	pure := pureInitPkgs[p.Pkg.Path()]
	if pure {
		if snap, ok := in.initSnap[p]; ok {
			// table-only package initialised earlier in this process: its (never written) globals are shared
			for g, cell := range snap {
				in.globals[g] = cell
			}
			return
		}
	}
	in.inInit++
	defer func() { in.inInit-- }()
	in.callFn(initFn, nil, nil, nil)
	if pure {
		snap := map[*ssa.Global]*Value{}
		for g, cell := range in.globals {
			if g.Pkg == p {
				snap[g] = cell
			}
		}
		in.initSnap[p] = snap
	}
}

// pureInitPkgs: packages whose initialisers only fill lookup tables that are never written afterwards and
// that depend on nothing symbolic. Their initialiser is interpreted once per process (it costs 50 k - 3 M
// steps) and the resulting globals are shared by all later paths.
var pureInitPkgs = map[string]bool{
	"unicode":                           true,
	"unicode/utf8":                      true,
	"strconv":                           true,
	"math":                              true,
	"math/bits":                         true,
	"github.com/bits-and-blooms/bitset": true,
}

func (in *Interp) buildPkg(p *ssa.Package) {
	if !in.built[p] {
		in.built[p] = true
		p.Build()
	}
}

func (in *Interp) goPanicf(format string, a ...any) {
	msg := fmt.Sprintf(format, a...)
	panic(goPanic{Val: in.nativeErrValue(runtimeErr(msg)), Msg: msg})
}

type runtimeErr string

func (e runtimeErr) Error() string { return string(e) }
func (e runtimeErr) RuntimeError() {}

// fnPkgPath returns the package path owning fn (also for synthetic wrappers).
func fnPkgPath(fn *ssa.Function) string {
	if fn.Pkg != nil {
		return fn.Pkg.Pkg.Path()
	}
	if o := fn.Origin(); o != nil && o.Pkg != nil {
		return o.Pkg.Pkg.Path()
	}
	if fn.Object() != nil && fn.Object().Pkg() != nil {
		return fn.Object().Pkg().Path()
	}
	if p := fn.Parent(); p != nil {
		return fnPkgPath(p)
	}
	return ""
}

// call dispatches on a function value.
func (in *Interp) call(fn Value, args []Value, caller *frame, cc *ssa.CallCommon) Value {
	switch fn := fn.(type) {
	case *ssa.Function:
		if fn == nil {
			in.goPanicf("runtime error: invalid memory address or nil pointer dereference (nil func)")
		}
		return in.callFn(fn, args, nil, caller)
	case *Closure:
		if fn == nil {
			in.goPanicf("runtime error: invalid memory address or nil pointer dereference (nil func)")
		}
		return in.callFn(fn.Fn, args, fn.Env, caller)
	case *ssa.Builtin:
		return in.callBuiltin(fn, args, caller, cc)
	case NativeFunc:
		return fn(in, args)
	}
	panic(abortPath{"unsupported", fmt.Sprintf("call of %T", fn)})
}

// NativeFunc is a function value implemented by the engine.
type NativeFunc func(in *Interp, args []Value) Value

func (in *Interp) callFn(fn *ssa.Function, args []Value, env []Value, caller *frame) Value {
	intr, cached := in.intrCach[fn]
	if !cached {
		name := fn.String()
		intr = intrinsics[name]
		if intr == nil && fn.Origin() != nil {
			intr = intrinsics[fn.Origin().String()]
		}
		in.intrCach[fn] = intr
	}
	if intr != nil {
		in.FnSeen["intrinsic:"+fn.String()]++
		return intr(in, caller, args)
	}
	// native receiver: reflect bridge
	if fn.Signature.Recv() != nil && len(args) > 0 {
		if n, ok := args[0].(Native); ok {
			return in.callNativeMethod(n, fn.Name(), args[1:], fn.Signature)
		}
	}
	if nf, ok := nativeFuncs[fn.String()]; ok {
		in.FnSeen["native:"+fn.String()]++
		return in.callNative(nf, args, fn.Signature)
	}
	pp := fnPkgPath(fn)
	if !in.InterpPkgs[pp] {
		if in.inInit > 0 {
			// tolerated during package initialisation: the result is the zero value
			if in.Verbose && fn.Name() != "init" {
				fmt.Fprintf(os.Stderr, "zsx: init: skipping call to %s\n", fn)
			}
			return in.zero(fn.Signature.Results())
		}
		panic(abortPath{"unsupported", "call to " + fn.String()})
	}
	if fn.Pkg != nil {
		in.buildPkg(fn.Pkg)
		if fn.Name() != "init" {
			in.ensureInit(fn.Pkg)
		}
	}
	if fn.Blocks == nil {
		if in.inInit > 0 {
			if in.Verbose {
				fmt.Fprintf(os.Stderr, "zsx: init: skipping body-less %s\n", fn)
			}
			return in.zero(fn.Signature.Results())
		}
		panic(abortPath{"unsupported", "no body for " + fn.String()})
	}
	in.FnSeen[fn.String()]++
	fi := in.info(fn)
	fr := &frame{in: in, fn: fn, caller: caller, info: fi, locals: make([]Value, fi.n)}
	for i, p := range fn.Params {
		fr.locals[fi.index[valKey(p)]] = args[i]
	}
	for i, fv := range fn.FreeVars {
		fr.locals[fi.index[valKey(fv)]] = env[i]
	}
	fr.block = fn.Blocks[0]
	fr.depth = in.depth
	in.depth++
	if in.depth > 2000 {
		panic(abortPath{"budget", "call depth"})
	}
	for fr.block != nil {
		in.runFrame(fr)
	}
	in.depth = fr.depth
	if fr.result == nil && fn.Signature.Results().Len() > 0 {
		// recovered panic without named results
		return in.zero(fn.Signature.Results())
	}
	return fr.result
}

func (in *Interp) runFrame(fr *frame) {
	defer func() {
		if fr.block == nil {
			return // normal return
		}
		r := recover()
		gp, ok := r.(goPanic)
		if !ok {
			panic(r) // abortPath or engine bug: unwind without running target defers
		}
		fr.panicking = true
		fr.panicVal = gp
		in.depth = fr.depth + 1
		fr.runDefers()
		fr.block = fr.fn.Recover
		if fr.block == nil {
			in.depthFix()
		}
	}()
	for {
		blk := fr.block
		jumped := false
		for _, instr := range blk.Instrs {
			in.steps++
			if stepProfile != nil {
				stepProfile[fr.fn.String()]++
			}
			if in.steps > in.MaxSteps {
				panic(abortPath{"budget", "step budget exhausted"})
			}
			switch in.visit(fr, instr) {
			case kReturn:
				return
			case kJump:
				jumped = true
			}
			if jumped {
				break
			}
		}
		if !jumped {
			panic(fmt.Sprintf("block %s of %s fell through", blk, fr.fn))
		}
	}
}

func (in *Interp) depthFix() {}

func (fr *frame) runDefers() {
	for len(fr.defers) > 0 {
		d := fr.defers[len(fr.defers)-1]
		fr.defers = fr.defers[:len(fr.defers)-1]
		fr.runDefer(d)
	}
	if fr.panicking {
		panic(fr.panicVal)
	}
}

func (fr *frame) runDefer(d deferred) {
	ok := false
	depth := fr.in.depth
	defer func() {
		if !ok {
			r := recover()
			gp, isgp := r.(goPanic)
			if !isgp {
				panic(r)
			}
			fr.in.depth = depth
			fr.panicking = true
			fr.panicVal = gp
		}
	}()
	fr.in.call(d.fn, d.args, fr, d.call)
	ok = true
}

type cont int

const (
	kNext cont = iota
	kReturn
	kJump
)

func (in *Interp) prepareCall(fr *frame, c *ssa.CallCommon) (Value, []Value) {
	var args []Value
	var fn Value
	if c.IsInvoke() {
		recv := fr.get(c.Value)
		itf, ok := recv.(Iface)
		if !ok {
			panic(fmt.Sprintf("invoke on %T", recv))
		}
		if itf.T == nil {
			if in.inInit > 0 {
				// tolerated in package initialisers whose inputs come from skipped native calls
				sig := c.Method.Type().(*types.Signature)
				return NativeFunc(func(in *Interp, a []Value) Value { return in.zero(sig.Results()) }), nil
			}
			in.goPanicf("runtime error: invalid memory address or nil pointer dereference (nil interface method call %s)", c.Method.Name())
		}
		if n, ok := itf.V.(Native); ok && !in.hasInterpMethods(itf.T) {
			name := c.Method.Name()
			sig := c.Method.Type().(*types.Signature)
			for _, a := range c.Args {
				args = append(args, fr.get(a))
			}
			fn = NativeFunc(func(in *Interp, a []Value) Value { return in.callNativeMethod(n, name, a, sig) })
			return fn, args
		}
		m := in.Prog.LookupMethod(itf.T, c.Method.Pkg(), c.Method.Name())
		if m == nil {
			panic(abortPath{"unsupported", fmt.Sprintf("method %s not found on %v", c.Method.Name(), itf.T)})
		}
		fn = m
		args = append(args, itf.V)
	} else {
		fn = fr.get(c.Value)
	}
	for _, a := range c.Args {
		args = append(args, fr.get(a))
	}
	return fn, args
}

// hasInterpMethods reports whether methods of t are implemented by interpreted code.
func (in *Interp) hasInterpMethods(t types.Type) bool {
	if p, ok := t.(*types.Pointer); ok {
		t = p.Elem()
	}
	if n, ok := t.(*types.Named); ok {
		if n.Obj().Pkg() == nil {
			return false
		}
		return in.InterpPkgs[n.Obj().Pkg().Path()]
	}
	return false
}

func (in *Interp) visit(fr *frame, instr ssa.Instruction) cont {
	if in.Trace {
		fmt.Fprintf(os.Stderr, "  %s: %v\n", fr.fn.Name(), instr)
	}
	switch instr := instr.(type) {
	case *ssa.DebugRef:
	case *ssa.UnOp:
		fr.set(instr, in.unop(instr, fr.get(instr.X)))
	case *ssa.BinOp:
		fr.set(instr, in.binop(instr.Op, instr.X.Type(), fr.get(instr.X), fr.get(instr.Y), instr.Y.Type()))
	case *ssa.Call:
		fn, args := in.prepareCall(fr, &instr.Call)
		fr.set(instr, in.call(fn, args, fr, &instr.Call))
	case *ssa.ChangeInterface:
		fr.set(instr, fr.get(instr.X))
	case *ssa.ChangeType:
		fr.set(instr, fr.get(instr.X))
	case *ssa.Convert:
		fr.set(instr, in.conv(instr.Type(), instr.X.Type(), fr.get(instr.X)))
	case *ssa.MakeInterface:
		fr.set(instr, Iface{T: instr.X.Type(), V: fr.get(instr.X)})
	case *ssa.Extract:
		fr.set(instr, fr.get(instr.Tuple).(Tuple)[instr.Index])
	case *ssa.Slice:
		fr.set(instr, in.sliceOp(fr, instr))
	case *ssa.Return:
		switch len(instr.Results) {
		case 0:
			fr.result = nil
		case 1:
			fr.result = fr.get(instr.Results[0])
		default:
			res := make(Tuple, len(instr.Results))
			for i, r := range instr.Results {
				res[i] = fr.get(r)
			}
			fr.result = res
		}
		fr.block = nil
		return kReturn
	case *ssa.RunDefers:
		fr.runDefers()
	case *ssa.Panic:
		v := fr.get(instr.X)
		panic(goPanic{Val: v, Msg: "panic: " + in.panicString(v)})
	case *ssa.Send:
		ch := fr.get(instr.Chan).(*Chan)
		ch.Buf = append(ch.Buf, fr.get(instr.X))
	case *ssa.Store:
		p, ok := fr.get(instr.Addr).(*Value)
		if !ok {
			panic(abortPath{"unsupported", fmt.Sprintf("store through %T", fr.get(instr.Addr))})
		}
		if p == nil {
			in.goPanicf("runtime error: invalid memory address or nil pointer dereference")
		}
		in.monStore(p)
		store(p, fr.get(instr.Val))
	case *ssa.If:
		succ := 1
		if in.branch(fr.get(instr.Cond), "") {
			succ = 0
		}
		fr.prev, fr.block = fr.block, fr.block.Succs[succ]
		return kJump
	case *ssa.Jump:
		fr.prev, fr.block = fr.block, fr.block.Succs[0]
		return kJump
	case *ssa.Defer:
		fn, args := in.prepareCall(fr, &instr.Call)
		fr.defers = append(fr.defers, deferred{fn, args, &instr.Call})
	case *ssa.Go:
		fn, args := in.prepareCall(fr, &instr.Call)
		cc := &instr.Call
		in.spawned = append(in.spawned, func() { in.call(fn, args, nil, cc) })
	case *ssa.MakeChan:
		fr.set(instr, &Chan{CloseAt: -1})
	case *ssa.Alloc:
		p := new(Value)
		*p = in.zero(instr.Type().Underlying().(*types.Pointer).Elem())
		in.monAlloc(p)
		fr.set(instr, p)
	case *ssa.MakeSlice:
		n := in.concInt(fr.get(instr.Len), "make len in "+fr.fn.Name())
		c := in.concInt(fr.get(instr.Cap), "make cap in "+fr.fn.Name())
		if n < 0 || c < n || c > 1<<24 {
			in.goPanicf("runtime error: makeslice: len out of range")
		}
		a := make([]Value, c)
		ez := in.zero(instr.Type().Underlying().(*types.Slice).Elem())
		for i := range a {
			a[i] = copyVal(ez)
		}
		fr.set(instr, Slice{a[:n]})
	case *ssa.MakeMap:
		fr.set(instr, NewMap())
	case *ssa.Range:
		fr.set(instr, in.rangeIter(fr.get(instr.X)))
	case *ssa.Next:
		fr.set(instr, fr.get(instr.Iter).(iterator).next())
	case *ssa.FieldAddr:
		if n, isN := fr.get(instr.X).(Native); isN {
			// read-only view of an exported field of a native struct (e.g. an embedded interface)
			fr.set(instr, in.nativeFieldCell(n, instr.Field))
			break
		}
		p, ok := fr.get(instr.X).(*Value)
		if !ok {
			panic(abortPath{"unsupported", fmt.Sprintf("field address in %T (%v)", fr.get(instr.X), instr.X.Type())})
		}
		if p == nil {
			in.goPanicf("runtime error: invalid memory address or nil pointer dereference")
		}
		s, ok := (*p).(Struct)
		if !ok {
			panic(abortPath{"unsupported", fmt.Sprintf("field address: cell holds %T, want struct %v", *p, instr.X.Type())})
		}
		fr.set(instr, &s[instr.Field])
	case *ssa.Field:
		fr.set(instr, fr.get(instr.X).(Struct)[instr.Field])
	case *ssa.IndexAddr:
		x := fr.get(instr.X)
		switch x := x.(type) {
		case *Value:
			if x == nil {
				in.goPanicf("runtime error: invalid memory address or nil pointer dereference")
			}
			a := (*x).(Array)
			i := in.concIndex(fr.get(instr.Index), len(a), instr.Index.Type())
			fr.set(instr, &a[i])
		case Slice:
			i := in.concIndex(fr.get(instr.Index), len(x.A), instr.Index.Type())
			fr.set(instr, &x.A[i])
		default:
			panic(fmt.Sprintf("IndexAddr on %T", x))
		}
	case *ssa.Index:
		x := fr.get(instr.X)
		switch x := x.(type) {
		case Array:
			i := in.concIndex(fr.get(instr.Index), len(x), instr.Index.Type())
			fr.set(instr, copyVal(x[i]))
		case string:
			i := in.concIndex(fr.get(instr.Index), len(x), instr.Index.Type())
			fr.set(instr, uint64(x[i]))
		default:
			panic(fmt.Sprintf("Index on %T", x))
		}
	case *ssa.Lookup:
		x := fr.get(instr.X)
		switch x := x.(type) {
		case string:
			i := in.concIndex(fr.get(instr.Index), len(x), instr.Index.Type())
			fr.set(instr, uint64(x[i]))
		case *Map:
			in.monMapAccess(x, false)
			k := in.concKey(fr.get(instr.Index))
			v, ok := x.Get(k)
			if !ok {
				v = in.zero(instr.X.Type().Underlying().(*types.Map).Elem())
			} else {
				v = copyVal(v)
			}
			if instr.CommaOk {
				fr.set(instr, Tuple{v, ok})
			} else {
				fr.set(instr, v)
			}
		default:
			panic(fmt.Sprintf("Lookup on %T", x))
		}
	case *ssa.MapUpdate:
		m := fr.get(instr.Map).(*Map)
		if m == nil {
			in.goPanicf("assignment to entry in nil map")
		}
		in.monMapWrite(m)
		m.Set(in.concKey(fr.get(instr.Key)), copyVal(fr.get(instr.Value)))
	case *ssa.TypeAssert:
		fr.set(instr, in.typeAssert(instr, fr.get(instr.X).(Iface)))
	case *ssa.MakeClosure:
		var env []Value
		for _, b := range instr.Bindings {
			env = append(env, fr.get(b))
		}
		fr.set(instr, &Closure{Fn: instr.Fn.(*ssa.Function), Env: env})
	case *ssa.Phi:
		for i, pred := range instr.Block().Preds {
			if fr.prev == pred {
				fr.set(instr, fr.get(instr.Edges[i]))
				break
			}
		}
	case *ssa.Select:
		fr.set(instr, in.selectOp(fr, instr))
	default:
		panic(abortPath{"unsupported", fmt.Sprintf("instruction %T", instr)})
	}
	return kNext
}

func (in *Interp) panicString(v Value) string {
	if itf, ok := v.(Iface); ok {
		switch x := itf.V.(type) {
		case string:
			return x
		case Native:
			if e, ok := x.V.(error); ok {
				return e.Error()
			}
		}
		if itf.T != nil {
			return itf.T.String() + " " + render(itf.V)
		}
	}
	return render(v)
}

// concInt concretises an integer-valued Value as a (signed) int.
func (in *Interp) concInt(v Value, what string) int {
	switch v := v.(type) {
	case uint64:
		return int(int64(v))
	case *term.Term:
		return int(int64(in.concretize(v, what)))
	case nil:
		return 0
	}
	panic(fmt.Sprintf("concInt: %T", v))
}

func (in *Interp) concKey(v Value) Value {
	if t, ok := v.(*term.Term); ok {
		c := in.concretize(t, "map key")
		if t.W == 0 {
			return c == 1
		}
		return c
	}
	return v
}

// concIndex bounds-checks idx against n (forking on a symbolic index) and returns a concrete index.
func (in *Interp) concIndex(idx Value, n int, it types.Type) int {
	switch v := idx.(type) {
	case uint64:
		w, signed, _ := intInfo(it)
		var i int64
		if signed {
			i = sextW(v, w)
		} else {
			i = int64(v)
			if v > 1<<62 {
				i = -1
			}
		}
		if i < 0 || i >= int64(n) {
			in.goPanicf("runtime error: index out of range [%d] with length %d", i, n)
		}
		return int(i)
	case *term.Term:
		w, _, _ := intInfo(it)
		tv := v
		if w != 64 {
			_, signed, _ := intInfo(it)
			if signed {
				tv = in.T.SExt(v, 64)
			} else {
				tv = in.T.ZExt(v, 64)
			}
		}
		inb := in.simp(in.T.Cmp(term.OULt, tv, in.T.BV(64, uint64(n))))
		if !in.branch(inb, "index-in-range") {
			in.goPanicf("runtime error: index out of range [symbolic] with length %d", n)
		}
		return int(in.concretize(tv, "index"))
	}
	panic(fmt.Sprintf("concIndex: %T", idx))
}

func (in *Interp) sliceOp(fr *frame, instr *ssa.Slice) Value {
	x := fr.get(instr.X)
	var lo, hi, max int
	hasHi, hasMax := instr.High != nil, instr.Max != nil
	if instr.Low != nil {
		lo = in.concInt(fr.get(instr.Low), "slice low")
	}
	if hasHi {
		hi = in.concInt(fr.get(instr.High), "slice high")
	}
	if hasMax {
		max = in.concInt(fr.get(instr.Max), "slice max")
	}
	switch x := x.(type) {
	case string:
		if !hasHi {
			hi = len(x)
		}
		if lo < 0 || hi < lo || hi > len(x) {
			in.goPanicf("runtime error: slice bounds out of range [%d:%d] with length %d", lo, hi, len(x))
		}
		return x[lo:hi]
	case Slice:
		c := cap(x.A)
		if !hasHi {
			hi = len(x.A)
		}
		if !hasMax {
			max = c
		}
		if lo < 0 || hi < lo || max < hi || max > c {
			in.goPanicf("runtime error: slice bounds out of range [%d:%d:%d] with capacity %d", lo, hi, max, c)
		}
		if x.A == nil {
			return Slice{}
		}
		return Slice{x.A[lo:hi:max]}
	case *Value:
		if x == nil {
			in.goPanicf("runtime error: invalid memory address or nil pointer dereference")
		}
		a := (*x).(Array)
		if !hasHi {
			hi = len(a)
		}
		if !hasMax {
			max = len(a)
		}
		if lo < 0 || hi < lo || max < hi || max > len(a) {
			in.goPanicf("runtime error: slice bounds out of range [%d:%d:%d] with capacity %d", lo, hi, max, len(a))
		}
		return Slice{[]Value(a)[lo:hi:max]}
	}
	panic(fmt.Sprintf("sliceOp on %T", x))
}

func (in *Interp) typeAssert(instr *ssa.TypeAssert, itf Iface) Value {
	var ok bool
	var v Value
	if it, isI := instr.AssertedType.Underlying().(*types.Interface); isI {
		ok = itf.T != nil && in.implements(itf, it)
		v = itf
		if !ok {
			v = Iface{}
		}
	} else {
		ok = itf.T != nil && types.Identical(itf.T, instr.AssertedType)
		if ok {
			v = itf.V
		} else {
			v = in.zero(instr.AssertedType)
		}
	}
	if instr.CommaOk {
		return Tuple{v, ok}
	}
	if !ok {
		have := "nil"
		if itf.T != nil {
			have = itf.T.String()
		}
		in.goPanicf("interface conversion: interface is %s, not %s", have, instr.AssertedType)
	}
	return v
}

func (in *Interp) implements(itf Iface, it *types.Interface) bool {
	if it.NumMethods() == 0 {
		return true
	}
	if n, ok := itf.V.(Native); ok && !in.hasInterpMethods(itf.T) {
		return nativeImplements(n, it)
	}
	return types.Implements(itf.T, it)
}

type iterator interface{ next() Value }

type mapIter struct {
	m    *Map
	keys []Value
	i    int
}

func (it *mapIter) next() Value {
	for it.i < len(it.keys) {
		k := it.keys[it.i]
		it.i++
		if v, ok := it.m.Get(k); ok {
			return Tuple{true, k, copyVal(v)}
		}
	}
	return Tuple{false, nil, nil}
}

type strIter struct {
	s string
	i int
}

func (it *strIter) next() Value {
	if it.i >= len(it.s) {
		return Tuple{false, uint64(0), uint64(0)}
	}
	r, n := utf8.DecodeRuneInString(it.s[it.i:])
	idx := it.i
	it.i += n
	return Tuple{true, uint64(idx), uint64(uint32(r))}
}

func (in *Interp) rangeIter(x Value) iterator {
	switch x := x.(type) {
	case *Map:
		in.monMapAccess(x, false)
		keys := x.Keys()
		if in.X != nil && in.X.ReverseMaps {
			for i, j := 0, len(keys)-1; i < j; i, j = i+1, j-1 {
				keys[i], keys[j] = keys[j], keys[i]
			}
		}
		return &mapIter{m: x, keys: keys}
	case string:
		return &strIter{s: x}
	}
	panic(fmt.Sprintf("rangeIter: %T", x))
}

func (in *Interp) selectOp(fr *frame, instr *ssa.Select) Value {
	// Supported: non-blocking select with receive cases on modelled channels.
	if instr.Blocking {
		panic(abortPath{"unsupported", "blocking select"})
	}
	for i, st := range instr.States {
		if st.Dir != types.RecvOnly {
			panic(abortPath{"unsupported", "select send case"})
		}
		ch, _ := fr.get(st.Chan).(*Chan)
		if ch == nil {
			continue
		}
		in.pollChan(ch, fr)
		if len(ch.Buf) > 0 {
			v := ch.Buf[0]
			ch.Buf = ch.Buf[1:]
			return in.selectResult(instr, i, true, v, st)
		}
		if ch.Closed {
			return in.selectResult(instr, i, false, in.zero(st.Chan.Type().Underlying().(*types.Chan).Elem()), st)
		}
	}
	return in.selectResult(instr, -1, false, nil, nil)
}

func (in *Interp) selectResult(instr *ssa.Select, idx int, recvOk bool, v Value, st *ssa.SelectState) Value {
	t := Tuple{uint64(int64(idx)), recvOk}
	for i, s := range instr.States {
		if s.Dir == types.RecvOnly {
			if i == idx {
				t = append(t, v)
			} else {
				t = append(t, in.zero(s.Chan.Type().Underlying().(*types.Chan).Elem()))
			}
		}
	}
	return t
}

func (in *Interp) callBuiltin(fn *ssa.Builtin, args []Value, caller *frame, cc *ssa.CallCommon) Value {
	switch fn.Name() {
	case "append":
		if len(args) == 1 {
			return args[0]
		}
		dst := args[0].(Slice)
		var src []Value
		switch s := args[1].(type) {
		case string:
			for i := 0; i < len(s); i++ {
				src = append(src, uint64(s[i]))
			}
		case Slice:
			src = s.A
		}
		if len(src) == 0 {
			return dst
		}
		n := len(dst.A)
		var out []Value
		if n+len(src) <= cap(dst.A) {
			out = dst.A[:n+len(src)]
		} else {
			nc := 2*cap(dst.A) + len(src)
			out = make([]Value, n+len(src), nc)
			copy(out, dst.A)
			// zero-fill spare capacity
			var ez Value
			if cc != nil {
				if st, ok := cc.Args[0].Type().Underlying().(*types.Slice); ok {
					ez = in.zero(st.Elem())
				}
			}
			full := out[:nc]
			for i := n + len(src); i < nc; i++ {
				full[i] = copyVal(ez)
			}
		}
		for i, v := range src {
			in.monStoreCell(&out[n+i])
			out[n+i] = copyVal(v)
		}
		return Slice{out}
	case "copy":
		dst := args[0].(Slice)
		var n int
		switch s := args[1].(type) {
		case string:
			n = len(s)
			if len(dst.A) < n {
				n = len(dst.A)
			}
			for i := 0; i < n; i++ {
				in.monStoreCell(&dst.A[i])
				dst.A[i] = uint64(s[i])
			}
		case Slice:
			n = len(s.A)
			if len(dst.A) < n {
				n = len(dst.A)
			}
			if n > 0 {
				tmp := make([]Value, n)
				for i := 0; i < n; i++ {
					tmp[i] = copyVal(s.A[i])
				}
				for i := 0; i < n; i++ {
					in.monStoreCell(&dst.A[i])
					dst.A[i] = tmp[i]
				}
			}
		}
		return uint64(n)
	case "len":
		switch x := args[0].(type) {
		case string:
			return uint64(len(x))
		case Slice:
			return uint64(len(x.A))
		case *Map:
			return uint64(x.Len())
		case Array:
			return uint64(len(x))
		case *Value:
			if x == nil {
				// len of nil *array is its static length
				return uint64(cc.Args[0].Type().Underlying().(*types.Pointer).Elem().Underlying().(*types.Array).Len())
			}
			return uint64(len((*x).(Array)))
		case *Chan:
			if x == nil {
				return uint64(0)
			}
			return uint64(len(x.Buf))
		}
	case "cap":
		switch x := args[0].(type) {
		case Slice:
			return uint64(cap(x.A))
		case Array:
			return uint64(len(x))
		case *Value:
			return uint64(len((*x).(Array)))
		}
	case "delete":
		m := args[0].(*Map)
		in.monMapWrite(m)
		m.Delete(in.concKey(args[1]))
		return nil
	case "clear":
		switch x := args[0].(type) {
		case *Map:
			for _, k := range x.Keys() {
				x.Delete(k)
			}
		case Slice:
			ez := in.zero(cc.Args[0].Type().Underlying().(*types.Slice).Elem())
			for i := range x.A {
				x.A[i] = copyVal(ez)
			}
		}
		return nil
	case "panic":
		panic(goPanic{Val: args[0], Msg: "panic: " + in.panicString(args[0])})
	case "recover":
		return in.doRecover(caller)
	case "print", "println":
		var sb strings.Builder
		for _, a := range args {
			sb.WriteString(render(a) + " ")
		}
		fmt.Fprintln(os.Stderr, "target:", sb.String())
		return nil
	case "min", "max":
		t := cc.Args[0].Type()
		acc := args[0]
		for _, a := range args[1:] {
			var lt Value
			if fn.Name() == "min" {
				lt = in.binop(token.LSS, t, a, acc, t)
			} else {
				lt = in.binop(token.GTR, t, a, acc, t)
			}
			if in.branch(lt, "") {
				acc = a
			}
		}
		return acc
	case "close":
		ch := args[0].(*Chan)
		if ch == nil {
			in.goPanicf("close of nil channel")
		}
		if ch.Closed {
			in.goPanicf("close of closed channel")
		}
		ch.Closed = true
		return nil
	case "ssa:wrapnilchk":
		if isNilValue(args[0]) {
			in.goPanicf("runtime error: value method called using nil pointer")
		}
		return args[0]
	}
	panic(abortPath{"unsupported", fmt.Sprintf("builtin %s(%T)", fn.Name(), args[0])})
}

func (in *Interp) doRecover(caller *frame) Value {
	// recover() must be called directly by a deferred function of a panicking frame
	if caller != nil && caller.caller != nil && caller.caller.panicking {
		caller.caller.panicking = false
		return caller.caller.panicVal.Val
	}
	return Iface{}
}
