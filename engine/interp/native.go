package interp

import (
	"errors"
	"fmt"
	"go/types"
	"hash/crc32"
	"io"
	"math"
	"reflect"
	"sort"

	"github.com/RoaringBitmap/roaring/v2"
	"github.com/RoaringBitmap/roaring/v2/roaring64"
	"github.com/blevesearch/vellum"
	"github.com/blevesearch/vellum/levenshtein"
	"github.com/blevesearch/vellum/regexp"
	"github.com/golang/snappy"

	"golang.org/x/tools/go/ssa"

	"zsx/term"
)

// nativeFuncs maps ssa function names to native Go functions called through reflection.
var nativeFuncs = map[string]reflect.Value{}

// nativeGlobals provides values for package-level variables of native packages.
var nativeGlobals = map[string]func(in *Interp) Value{}

func regNative(name string, f any) { nativeFuncs[name] = reflect.ValueOf(f) }

const (
	pRoaring   = "github.com/RoaringBitmap/roaring/v2"
	pRoaring64 = "github.com/RoaringBitmap/roaring/v2/roaring64"
	pVellum    = "github.com/blevesearch/vellum"
	pSnappy    = "github.com/golang/snappy"
)

func init() {
	regNative(pRoaring+".New", roaring.New)
	regNative(pRoaring+".NewBitmap", roaring.NewBitmap)
	regNative(pRoaring+".BitmapOf", roaring.BitmapOf)
	regNative(pRoaring+".AndNot", roaring.AndNot)
	regNative(pRoaring+".And", roaring.And)
	regNative(pRoaring+".Or", roaring.Or)
	regNative(pRoaring64+".New", roaring64.New)
	regNative(pRoaring64+".NewBitmap", roaring64.NewBitmap)
	regNative(pRoaring64+".AndNot", roaring64.AndNot)
	regNative(pVellum+".New", vellum.New)
	regNative(pVellum+".Load", vellum.Load)
	regNative(pVellum+"/regexp.New", regexp.New)
	regNative(pVellum+"/levenshtein.NewLevenshteinAutomatonBuilder", levenshtein.NewLevenshteinAutomatonBuilder)
	regNative(pSnappy+".Encode", snappy.Encode)
	regNative(pSnappy+".Decode", snappy.Decode)
	regNative(pSnappy+".MaxEncodedLen", snappy.MaxEncodedLen)
	regNative(pSnappy+".DecodedLen", snappy.DecodedLen)
	regNative("math.Sqrt", math.Sqrt)
	regNative("math.Float64bits", math.Float64bits)
	regNative("math.Float64frombits", math.Float64frombits)
	regNative("math.Floor", math.Floor)
	regNative("math.Ceil", math.Ceil)
	regNative("math.Log", math.Log)
	regNative("math.Log2", math.Log2)
	regNative("math.Pow", math.Pow)
	regNative("math.IsNaN", math.IsNaN)
	regNative("math.IsInf", math.IsInf)
	regNative("math.Abs", math.Abs)
	regNative("math.Round", math.Round)
	regNative("math.Inf", math.Inf)
	regNative("math.Trunc", math.Trunc)

	nativeGlobals[pVellum+".ErrIteratorDone"] = func(in *Interp) Value { return in.nativeErrValue(vellum.ErrIteratorDone) }
	nativeGlobals["hash/crc32.IEEETable"] = func(in *Interp) Value { return Native{crc32.IEEETable} }
}

var fakeTypes = map[reflect.Type]types.Type{}

// fakeType returns a stand-in types.Type for a native dynamic type.
func (in *Interp) fakeType(rt reflect.Type) types.Type {
	if t, ok := fakeTypes[rt]; ok {
		return t
	}
	t := types.NewNamed(types.NewTypeName(0, nil, "native:"+rt.String(), nil), types.NewStruct(nil, nil), nil)
	fakeTypes[rt] = t
	return t
}

func (in *Interp) nativeErrValue(err error) Value {
	if err == nil {
		return Iface{}
	}
	if ie, ok := err.(*interpErr); ok {
		return ie.v
	}
	return Iface{T: in.fakeType(reflect.TypeOf(err)), V: Native{err}}
}

// interpErr carries an interpreted error value through native code.
type interpErr struct {
	v   Iface
	msg string
}

func (e *interpErr) Error() string { return e.msg }

var (
	errorRT  = reflect.TypeOf((*error)(nil)).Elem()
	writerRT = reflect.TypeOf((*io.Writer)(nil)).Elem()
	readerRT = reflect.TypeOf((*io.Reader)(nil)).Elem()
	anyRT    = reflect.TypeOf((*any)(nil)).Elem()
	valueRT  = anyRT
	sliceRT  = reflect.TypeOf(Slice{})
)

type writerAdapter struct {
	in  *Interp
	itf Iface
}

func (w *writerAdapter) Write(p []byte) (int, error) {
	m := w.in.Prog.LookupMethod(w.itf.T, nil, "Write")
	if m == nil {
		panic(abortPath{"unsupported", "writer adapter: no Write method on " + w.itf.T.String()})
	}
	res := w.in.callFn(m, []Value{w.itf.V, bytesToSlice(p)}, nil, nil).(Tuple)
	n := int(int64(res[0].(uint64)))
	e := res[1].(Iface)
	if e.T == nil {
		return n, nil
	}
	return n, &interpErr{v: e, msg: "error from interpreted writer"}
}

type readerAdapter struct {
	in  *Interp
	itf Iface
}

func (r *readerAdapter) Read(p []byte) (int, error) {
	m := r.in.Prog.LookupMethod(r.itf.T, nil, "Read")
	if m == nil {
		panic(abortPath{"unsupported", "reader adapter: no Read method on " + r.itf.T.String()})
	}
	buf := bytesToSlice(make([]byte, len(p)))
	res := r.in.callFn(m, []Value{r.itf.V, buf}, nil, nil).(Tuple)
	n := int(int64(res[0].(uint64)))
	got := r.in.concBytes(Slice{buf.A[:n]}, "bytes read by library")
	copy(p, got)
	e := res[1].(Iface)
	if e.T == nil {
		return n, nil
	}
	if r.in.isIOEOF(e) {
		return n, io.EOF
	}
	return n, &interpErr{v: e, msg: "error from interpreted reader"}
}

// isIOEOF reports whether e is the interpreted io.EOF value.
func (in *Interp) isIOEOF(e Iface) bool {
	iop := in.Prog.ImportedPackage("io")
	if iop == nil {
		return false
	}
	g, ok := iop.Members["EOF"].(*ssa.Global)
	if !ok {
		return false
	}
	cur := *in.global(g)
	eq, _ := in.equals(cur, e).(bool)
	return eq
}

func (in *Interp) toNative(v Value, rt reflect.Type) reflect.Value {
	if rt == sliceRT {
		return reflect.ValueOf(v.(Slice))
	}
	switch rt.Kind() {
	case reflect.Bool:
		switch b := v.(type) {
		case bool:
			return reflect.ValueOf(b).Convert(rt)
		case *term.Term:
			return reflect.ValueOf(in.concretize(b, "native bool argument") == 1).Convert(rt)
		}
	case reflect.Int, reflect.Int8, reflect.Int16, reflect.Int32, reflect.Int64:
		u := in.concU64(v, "native int argument")
		r := reflect.New(rt).Elem()
		r.SetInt(sextW(u, rt.Bits()))
		return r
	case reflect.Uint, reflect.Uint8, reflect.Uint16, reflect.Uint32, reflect.Uint64, reflect.Uintptr:
		u := in.concU64(v, "native uint argument")
		r := reflect.New(rt).Elem()
		r.SetUint(u)
		return r
	case reflect.Float32, reflect.Float64:
		r := reflect.New(rt).Elem()
		switch f := v.(type) {
		case float32:
			r.SetFloat(float64(f))
		case float64:
			r.SetFloat(f)
		default:
			panic(abortPath{"unsupported", fmt.Sprintf("native float argument from %T", v)})
		}
		return r
	case reflect.String:
		return reflect.ValueOf(v.(string)).Convert(rt)
	case reflect.Slice:
		s, ok := v.(Slice)
		if !ok {
			if n, ok := v.(Native); ok {
				return reflect.ValueOf(n.V)
			}
			panic(abortPath{"unsupported", fmt.Sprintf("native slice argument from %T", v)})
		}
		if s.A == nil {
			return reflect.Zero(rt)
		}
		r := reflect.MakeSlice(rt, len(s.A), len(s.A))
		if rt.Elem().Kind() == reflect.Uint8 {
			b := in.concBytes(s, "bytes passed to library")
			reflect.Copy(r, reflect.ValueOf(b))
			return r
		}
		for i, e := range s.A {
			r.Index(i).Set(in.toNative(e, rt.Elem()))
		}
		return r
	case reflect.Interface:
		if rt == anyRT {
			// raw engine value wanted
			if v == nil {
				return reflect.Zero(rt)
			}
			return reflect.ValueOf(v)
		}
		itf, ok := v.(Iface)
		if !ok {
			if n, ok := v.(Native); ok {
				return reflect.ValueOf(n.V)
			}
			panic(abortPath{"unsupported", fmt.Sprintf("native interface argument from %T", v)})
		}
		if itf.T == nil {
			return reflect.Zero(rt)
		}
		if n, ok := itf.V.(Native); ok {
			rv := reflect.ValueOf(n.V)
			if rv.Type().Implements(rt) {
				return rv
			}
		}
		if rt == writerRT || writerRT.Implements(rt) {
			return reflect.ValueOf(&writerAdapter{in, itf})
		}
		if rt == readerRT {
			return reflect.ValueOf(&readerAdapter{in, itf})
		}
		if rt == errorRT {
			return reflect.ValueOf(&interpErr{v: itf, msg: "interpreted error"})
		}
		panic(abortPath{"unsupported", fmt.Sprintf("no adapter from %v to native %v", itf.T, rt)})
	case reflect.Ptr, reflect.Struct, reflect.Map, reflect.Func, reflect.Chan, reflect.Array:
		if n, ok := v.(Native); ok {
			rv := reflect.ValueOf(n.V)
			if rv.Type().AssignableTo(rt) {
				return rv
			}
			if rv.Type().ConvertibleTo(rt) {
				return rv.Convert(rt)
			}
			panic(abortPath{"unsupported", fmt.Sprintf("native %v not assignable to %v", rv.Type(), rt)})
		}
		if isNilValue(v) {
			return reflect.Zero(rt)
		}
	}
	panic(abortPath{"unsupported", fmt.Sprintf("toNative %T -> %v", v, rt)})
}

func (in *Interp) concU64(v Value, what string) uint64 {
	switch v := v.(type) {
	case uint64:
		return v
	case *term.Term:
		return in.concretize(v, what)
	}
	panic(fmt.Sprintf("concU64: %T (%s)", v, what))
}

func basicKind(k reflect.Kind) bool {
	switch k {
	case reflect.Bool, reflect.Int, reflect.Int8, reflect.Int16, reflect.Int32, reflect.Int64,
		reflect.Uint, reflect.Uint8, reflect.Uint16, reflect.Uint32, reflect.Uint64, reflect.Float32, reflect.Float64, reflect.String:
		return true
	}
	return false
}

func (in *Interp) fromNative(rv reflect.Value) Value {
	switch rv.Kind() {
	case reflect.Bool:
		return rv.Bool()
	case reflect.Int, reflect.Int8, reflect.Int16, reflect.Int32, reflect.Int64:
		return uint64(rv.Int()) & maskW(rv.Type().Bits())
	case reflect.Uint, reflect.Uint8, reflect.Uint16, reflect.Uint32, reflect.Uint64, reflect.Uintptr:
		return rv.Uint()
	case reflect.Float32:
		return float32(rv.Float())
	case reflect.Float64:
		return rv.Float()
	case reflect.String:
		return rv.String()
	case reflect.Slice:
		if rv.Type() == sliceRT {
			return rv.Interface().(Slice)
		}
		if rv.IsNil() {
			return Slice{}
		}
		n := rv.Len()
		a := make([]Value, n)
		for i := 0; i < n; i++ {
			a[i] = in.fromNative(rv.Index(i))
		}
		return Slice{a}
	case reflect.Map:
		if basicKind(rv.Type().Key().Kind()) && basicKind(rv.Type().Elem().Kind()) {
			// a map of plain values returned by a native library: becomes an interpreter map (keys in sorted order)
			if rv.IsNil() {
				return (*Map)(nil)
			}
			keys := rv.MapKeys()
			sort.Slice(keys, func(i, j int) bool { return fmt.Sprint(keys[i].Interface()) < fmt.Sprint(keys[j].Interface()) })
			m := NewMap()
			for _, k := range keys {
				m.Set(in.fromNative(k), in.fromNative(rv.MapIndex(k)))
			}
			return m
		}
		if rv.IsNil() {
			return (*Value)(nil)
		}
		return Native{rv.Interface()}
	case reflect.Ptr, reflect.Func, reflect.Chan:
		if rv.IsNil() {
			return (*Value)(nil)
		}
		return Native{rv.Interface()}
	case reflect.Interface:
		if rv.IsNil() {
			return Iface{}
		}
		el := rv.Elem()
		if rv.Type() == anyRT {
			// raw engine value
			return el.Interface()
		}
		if ie, ok := el.Interface().(*interpErr); ok {
			return ie.v
		}
		if iv, ok := el.Interface().(Iface); ok {
			return iv
		}
		var inner Value
		switch el.Kind() {
		case reflect.Ptr, reflect.Struct, reflect.Map, reflect.Func, reflect.Slice, reflect.Array, reflect.Chan, reflect.String:
			inner = Native{el.Interface()}
		default:
			inner = in.fromNative(el)
		}
		return Iface{T: in.fakeType(el.Type()), V: inner}
	case reflect.Struct, reflect.Array:
		return Native{rv.Interface()}
	}
	panic(abortPath{"unsupported", fmt.Sprintf("fromNative %v", rv.Type())})
}

func (in *Interp) callNative(f reflect.Value, args []Value, sig *types.Signature) Value {
	ft := f.Type()
	n := ft.NumIn()
	if len(args) != n {
		panic(abortPath{"unsupported", fmt.Sprintf("native call arity %d vs %d for %v", len(args), n, ft)})
	}
	ins := make([]reflect.Value, n)
	for i := range ins {
		ins[i] = in.toNative(args[i], ft.In(i))
	}
	var outs []reflect.Value
	func() {
		defer func() {
			if r := recover(); r != nil {
				switch r.(type) {
				case abortPath, goPanic:
					panic(r)
				}
				// a panic inside the library is a panic of the program under test
				panic(goPanic{Val: in.nativeErrValue(fmt.Errorf("%v", r)), Msg: fmt.Sprintf("panic in library code: %v", r)})
			}
		}()
		if ft.IsVariadic() {
			outs = f.CallSlice(ins)
		} else {
			outs = f.Call(ins)
		}
	}()
	switch len(outs) {
	case 0:
		return nil
	case 1:
		return in.fromNative(outs[0])
	}
	t := make(Tuple, len(outs))
	for i, o := range outs {
		t[i] = in.fromNative(o)
	}
	return t
}

func (in *Interp) callNativeMethod(n Native, name string, args []Value, sig *types.Signature) Value {
	if h, ok := nativeMethodHooks[fmt.Sprintf("%T.%s", n.V, name)]; ok {
		if r, handled := h(in, n, args); handled {
			return r
		}
	}
	rv := reflect.ValueOf(n.V)
	m := rv.MethodByName(name)
	if !m.IsValid() {
		panic(abortPath{"unsupported", fmt.Sprintf("native method %T.%s not found", n.V, name)})
	}
	in.FnSeen[fmt.Sprintf("native:(%T).%s", n.V, name)]++
	// symbolic FST values travel through vellum as tagged handles (tag 01 is reserved by zapx)
	if _, ok := n.V.(*vellum.Builder); ok && name == "Insert" {
		if t, ok := args[1].(*term.Term); ok {
			h := handleTag | uint64(len(in.ghost.handles))
			in.ghost.handles = append(in.ghost.handles, t)
			args = []Value{args[0], h}
		}
	}
	res := in.callNative(m, args, sig)
	if name == "ReconstructBatch" {
		// go-faiss fills the caller's buffer and returns it: keep the aliasing (and the capacity)
		if tp, ok := res.(Tuple); ok && len(tp) == 2 {
			if out, ok := tp[0].(Slice); ok {
				if buf, ok := args[1].(Slice); ok && cap(buf.A) >= len(out.A) && buf.A != nil {
					dst := buf.A[:len(out.A)]
					copy(dst, out.A)
					tp[0] = Slice{dst}
				}
			}
		}
	}
	if len(in.ghost.handles) > 0 && (name == "Get" || name == "Current") {
		if tp, ok := res.(Tuple); ok {
			for i, v := range tp {
				if u, ok := v.(uint64); ok && u&handleMask == handleTag {
					idx := int(u &^ handleMask)
					if idx < len(in.ghost.handles) {
						tp[i] = in.ghost.handles[idx]
					}
				}
			}
		}
	}
	return res
}

const (
	handleMask = uint64(0xc000000000000000)
	handleTag  = uint64(0x4000000000000000)
)

// nativeMethodHooks intercept selected native methods (key "%T.Method").
var nativeMethodHooks = map[string]func(in *Interp, n Native, args []Value) (Value, bool){}

func nativeImplements(n Native, it *types.Interface) bool {
	rt := reflect.TypeOf(n.V)
	for i := 0; i < it.NumMethods(); i++ {
		if _, ok := rt.MethodByName(it.Method(i).Name()); !ok {
			return false
		}
	}
	return true
}

var _ = errors.New

// nativeFieldCell returns a fresh cell holding the value of field i of the native struct n points to.
func (in *Interp) nativeFieldCell(n Native, i int) *Value {
	rv := reflect.ValueOf(n.V)
	if rv.Kind() != reflect.Ptr || rv.IsNil() || rv.Elem().Kind() != reflect.Struct || i >= rv.Elem().NumField() {
		panic(abortPath{"unsupported", fmt.Sprintf("field %d of native %T", i, n.V)})
	}
	f := rv.Elem().Field(i)
	if !f.CanInterface() {
		panic(abortPath{"unsupported", fmt.Sprintf("unexported field %d of native %T", i, n.V)})
	}
	c := new(Value)
	*c = in.fromNative(f)
	return c
}
