package interp

import (
	"reflect"

	"github.com/blevesearch/vellum"

	"bytes"
	"fmt"
	"go/types"
	"hash/crc32"
	"math"
	"sort"
	"strings"

	"zsx/term"
)

type Intrinsic func(in *Interp, fr *frame, args []Value) Value

var intrinsics = map[string]Intrinsic{}

// SymFloat is a float whose bit pattern is symbolic (opaque to arithmetic).
type SymFloat struct {
	Bits *term.Term
}

func harnessName(n string) string { return "github.com/blevesearch/zapx/v16." + n }

func sanitize(name string) string {
	return strings.NewReplacer("|", "_", "\\", "_", "\"", "_").Replace(name)
}

func init() {
	H := harnessName
	symInt := func(w int) Intrinsic {
		return func(in *Interp, fr *frame, args []Value) Value {
			return in.X.input(sanitize(args[0].(string)), w)
		}
	}
	intrinsics[H("vU8")] = symInt(8)
	intrinsics[H("vU16")] = symInt(16)
	intrinsics[H("vU32")] = symInt(32)
	intrinsics[H("vU64")] = symInt(64)
	intrinsics[H("vInt")] = symInt(64)
	intrinsics[H("vBool")] = symInt(0)
	intrinsics[H("vChoice")] = func(in *Interp, fr *frame, args []Value) Value {
		n := args[1].(uint64)
		if n <= 1 {
			return uint64(0)
		}
		v := in.X.input(sanitize(args[0].(string)), 64)
		t, ok := v.(*term.Term)
		if !ok {
			return v
		}
		in.X.assume(in.simp(in.T.Cmp(term.OULt, t, in.T.BV(64, n))))
		return in.concretize(t, "vChoice "+args[0].(string))
	}
	intrinsics[H("vSymbolic")] = func(in *Interp, fr *frame, args []Value) Value { return true }
	intrinsics[H("vAssume")] = func(in *Interp, fr *frame, args []Value) Value {
		in.X.assume(args[0])
		return nil
	}
	intrinsics[H("vAssert")] = func(in *Interp, fr *frame, args []Value) Value {
		in.X.assert(args[0], args[1].(string))
		return nil
	}
	intrinsics[H("vFail")] = func(in *Interp, fr *frame, args []Value) Value {
		in.X.assert(false, args[0].(string))
		return nil
	}
	intrinsics[H("vAnd")] = func(in *Interp, fr *frame, args []Value) Value { return in.and(args[0], args[1]) }
	intrinsics[H("vOr")] = func(in *Interp, fr *frame, args []Value) Value { return in.or(args[0], args[1]) }
	intrinsics[H("vNot")] = func(in *Interp, fr *frame, args []Value) Value { return in.not(args[0]) }
	intrinsics[H("vImplies")] = func(in *Interp, fr *frame, args []Value) Value { return in.or(in.not(args[0]), args[1]) }
	intrinsics[H("vIteU64")] = func(in *Interp, fr *frame, args []Value) Value {
		if b, ok := args[0].(bool); ok {
			if b {
				return args[1]
			}
			return args[2]
		}
		return in.simp(in.T.Ite(args[0].(*term.Term), in.lift(args[1], 64), in.lift(args[2], 64)))
	}
	intrinsics[H("vBytesEq")] = func(in *Interp, fr *frame, args []Value) Value {
		return in.bytesEq(args[0].(Slice), args[1].(Slice))
	}
	intrinsics[H("vObserve")] = func(in *Interp, fr *frame, args []Value) Value {
		in.X.observed = append(in.X.observed, obsRec{args[0].(string), args[1]})
		return nil
	}
	intrinsics[H("vNote")] = func(in *Interp, fr *frame, args []Value) Value {
		in.X.Res.Sites["note:"+args[0].(string)]++
		return nil
	}
	intrinsics[H("vSkipKnown")] = func(in *Interp, fr *frame, args []Value) Value {
		if in.X.SkipKnown[args[0].(string)] {
			in.X.Res.Sites["known-skipped:"+args[0].(string)]++
			return true
		}
		return false
	}
	intrinsics[H("vParam")] = func(in *Interp, fr *frame, args []Value) Value {
		if v, ok := in.X.Params[args[0].(string)]; ok {
			return uint64(int64(v))
		}
		return args[1]
	}
	intrinsics[H("vAlwaysMatch")] = func(in *Interp, fr *frame, args []Value) Value {
		return in.fromNative(reflect.ValueOf(&struct{ A vellum.Automaton }{&vellum.AlwaysMatch{}}).Elem().Field(0))
	}
	intrinsics[H("vPoolDeterministic")] = func(in *Interp, fr *frame, args []Value) Value { return nil }
	intrinsics[H("vShare")] = func(in *Interp, fr *frame, args []Value) Value {
		cells := map[*Value]bool{}
		maps := map[*Map]bool{}
		reachable(args[0], cells, maps, 0)
		for c := range cells {
			in.ghost.shared[c] = true
		}
		for m := range maps {
			in.ghost.sharedMaps[m] = true
		}
		in.ghost.effMon = true
		return nil
	}
	intrinsics[H("vGuard")] = func(in *Interp, fr *frame, args []Value) Value {
		// vGuard(&field, &mutex): both arrive as interfaces holding pointers
		f, _ := args[0].(Iface).V.(*Value)
		m, _ := args[1].(Iface).V.(*Value)
		if f != nil && m != nil {
			in.ghost.guards[f] = m
		}
		return nil
	}
	intrinsics[H("vGuardAny")] = func(in *Interp, fr *frame, args []Value) Value {
		// vGuardAny(&field, &mutex): every access (reads and atomic updates) needs the mutex held in read or write mode
		f, _ := args[0].(Iface).V.(*Value)
		m, _ := args[1].(Iface).V.(*Value)
		if f != nil && m != nil {
			in.ghost.guards[f] = m
			in.ghost.guardsAny[f] = true
		}
		return nil
	}
	intrinsics[H("vGuardMap")] = func(in *Interp, fr *frame, args []Value) Value {
		m, _ := args[0].(Iface).V.(*Map)
		mu, _ := args[1].(Iface).V.(*Value)
		if m != nil && mu != nil {
			in.ghost.mapGuards[m] = mu
		}
		return nil
	}
	intrinsics[H("vShareGlobals")] = func(in *Interp, fr *frame, args []Value) Value {
		// every package-level variable materialised so far (and what it reaches) becomes shared
		cells := map[*Value]bool{}
		maps := map[*Map]bool{}
		for _, p := range in.globals {
			reachable(p, cells, maps, 0)
		}
		for c := range cells {
			in.ghost.shared[c] = true
		}
		for m := range maps {
			in.ghost.sharedMaps[m] = true
		}
		in.ghost.effMon = true
		return nil
	}
	intrinsics[H("vUnshare")] = func(in *Interp, fr *frame, args []Value) Value {
		in.ghost.effMon = false
		return nil
	}
	intrinsics[H("vCloseChan")] = func(in *Interp, fr *frame, args []Value) Value {
		ch := &Chan{CloseAt: 0}
		ch.Counter, _ = args[0].(*Value)
		in.ghost.cancelChan = ch
		return ch
	}
	intrinsics[H("vCancelTick")] = func(in *Interp, fr *frame, args []Value) Value { return nil }
	intrinsics[H("vCancelPolls")] = func(in *Interp, fr *frame, args []Value) Value {
		if in.ghost.cancelChan == nil {
			return uint64(0)
		}
		return uint64(in.ghost.cancelChan.Polls)
	}
	intrinsics[H("vPin")] = func(in *Interp, fr *frame, args []Value) Value {
		if in.X.Fix == nil {
			in.X.Fix = map[string]uint64{}
		}
		in.X.Fix[sanitize(args[0].(string))] = args[1].(uint64)
		in.X.PinRest = true
		return nil
	}
	intrinsics[H("vRegister")] = func(in *Interp, fr *frame, args []Value) Value { return nil }
	intrinsics[H("vRunSpawned")] = func(in *Interp, fr *frame, args []Value) Value {
		in.runSpawned()
		return nil
	}
	intrinsics[H("vIsConcrete")] = func(in *Interp, fr *frame, args []Value) Value {
		_, sym := args[0].(*term.Term)
		return !sym
	}
	// vExpectPanic(f) bool: runs f, reports whether it panicked.
	intrinsics[H("vPanics")] = func(in *Interp, fr *frame, args []Value) (res Value) {
		depth := in.depth
		defer func() {
			if r := recover(); r != nil {
				if _, ok := r.(goPanic); ok {
					in.depth = depth
					res = true
					return
				}
				panic(r)
			}
		}()
		in.call(args[0], nil, fr, nil)
		return false
	}

	// ---- fmt
	intrinsics["fmt.Sprintf"] = func(in *Interp, fr *frame, args []Value) Value {
		return fmt.Sprintf(args[0].(string), in.fmtArgs(args[1].(Slice))...)
	}
	intrinsics["fmt.Sprint"] = func(in *Interp, fr *frame, args []Value) Value {
		return fmt.Sprint(in.fmtArgs(args[0].(Slice))...)
	}
	intrinsics["fmt.Sprintln"] = func(in *Interp, fr *frame, args []Value) Value {
		return fmt.Sprintln(in.fmtArgs(args[0].(Slice))...)
	}
	intrinsics["fmt.Errorf"] = func(in *Interp, fr *frame, args []Value) Value {
		return in.nativeErrValue(fmt.Errorf(strings.ReplaceAll(args[0].(string), "%w", "%v"), in.fmtArgs(args[1].(Slice))...))
	}
	for _, n := range []string{"fmt.Printf", "fmt.Println", "fmt.Print", "log.Printf", "log.Println", "log.Print"} {
		intrinsics[n] = func(in *Interp, fr *frame, args []Value) Value { return Tuple{uint64(0), Iface{}} }
	}
	intrinsics["log.Printf"] = func(in *Interp, fr *frame, args []Value) Value { return nil }
	intrinsics["log.Println"] = func(in *Interp, fr *frame, args []Value) Value { return nil }
	intrinsics["log.Print"] = func(in *Interp, fr *frame, args []Value) Value { return nil }

	// ---- bytes (symbolic-aware)
	intrinsics["bytes.Equal"] = func(in *Interp, fr *frame, args []Value) Value {
		return in.bytesEq(args[0].(Slice), args[1].(Slice))
	}
	intrinsics["bytes.Compare"] = func(in *Interp, fr *frame, args []Value) Value {
		a := in.concBytes(args[0].(Slice), "bytes.Compare")
		b := in.concBytes(args[1].(Slice), "bytes.Compare")
		return uint64(int64(bytes.Compare(a, b)))
	}
	intrinsics["bytes.IndexByte"] = func(in *Interp, fr *frame, args []Value) Value {
		s := args[0].(Slice)
		c := args[1]
		for i, e := range s.A {
			if in.branch(in.equals(e, c), "bytes.IndexByte") {
				return uint64(i)
			}
		}
		return uint64(math.MaxUint64)
	}
	intrinsics["bytes.Index"] = func(in *Interp, fr *frame, args []Value) Value {
		a := in.concBytes(args[0].(Slice), "bytes.Index")
		b := in.concBytes(args[1].(Slice), "bytes.Index")
		return uint64(int64(bytes.Index(a, b)))
	}
	intrinsics["bytes.HasPrefix"] = func(in *Interp, fr *frame, args []Value) Value {
		a, b := args[0].(Slice), args[1].(Slice)
		if len(a.A) < len(b.A) {
			return false
		}
		return in.bytesEq(Slice{a.A[:len(b.A)]}, b)
	}
	intrinsics["strings.Compare"] = func(in *Interp, fr *frame, args []Value) Value {
		return uint64(int64(strings.Compare(args[0].(string), args[1].(string))))
	}
	intrinsics["strings.HasPrefix"] = func(in *Interp, fr *frame, args []Value) Value {
		return strings.HasPrefix(args[0].(string), args[1].(string))
	}
	intrinsics["strings.Contains"] = func(in *Interp, fr *frame, args []Value) Value {
		return strings.Contains(args[0].(string), args[1].(string))
	}
	intrinsics["sort.Strings"] = func(in *Interp, fr *frame, args []Value) Value {
		s := args[0].(Slice)
		ss := make([]string, len(s.A))
		for i, e := range s.A {
			ss[i] = e.(string)
		}
		sort.Strings(ss)
		for i := range ss {
			s.A[i] = ss[i]
		}
		return nil
	}

	sortSlice := func(in *Interp, fr *frame, args []Value) Value {
		s := args[0].(Iface).V.(Slice)
		less := args[1]
		// stable insertion sort through the interpreted less function
		for i := 1; i < len(s.A); i++ {
			for j := i; j > 0; j-- {
				if !in.branch(in.call(less, []Value{uint64(j), uint64(j - 1)}, fr, nil), "sort.less") {
					break
				}
				s.A[j], s.A[j-1] = s.A[j-1], s.A[j]
			}
		}
		return nil
	}
	intrinsics["sort.Slice"] = sortSlice
	intrinsics["sort.SliceStable"] = sortSlice

	// ---- math bit casts
	intrinsics["math.Float32frombits"] = func(in *Interp, fr *frame, args []Value) Value {
		switch b := args[0].(type) {
		case uint64:
			return math.Float32frombits(uint32(b))
		case *term.Term:
			return SymFloat{b}
		}
		panic("Float32frombits")
	}
	intrinsics["math.Float32bits"] = func(in *Interp, fr *frame, args []Value) Value {
		switch f := args[0].(type) {
		case float32:
			return uint64(math.Float32bits(f))
		case SymFloat:
			return f.Bits
		}
		panic(fmt.Sprintf("Float32bits of %T", args[0]))
	}

	// ---- crc32 as a fold of an uninterpreted step function over symbolic bytes
	intrinsics["hash/crc32.Update"] = func(in *Interp, fr *frame, args []Value) Value {
		crc := args[0]
		s := args[2].(Slice)
		allConc := true
		if _, ok := crc.(*term.Term); ok {
			allConc = false
		}
		for _, e := range s.A {
			if _, ok := e.(*term.Term); ok {
				allConc = false
				break
			}
		}
		if allConc && in.ghost.crcNative {
			return uint64(crc32.Update(uint32(crc.(uint64)), crc32.IEEETable, in.concBytes(s, "crc")))
		}
		c := in.lift(crc, 32)
		for _, e := range s.A {
			c = in.T.UF("crcstep", 32, c, in.lift(e, 8))
		}
		return in.simp(c)
	}
	intrinsics["hash/crc32.ChecksumIEEE"] = func(in *Interp, fr *frame, args []Value) Value {
		return intrinsics["hash/crc32.Update"](in, fr, []Value{uint64(0), nil, args[0]})
	}

	// ---- reflect (only sizes in package initialisers)
	intrinsics["reflect.TypeOf"] = func(in *Interp, fr *frame, args []Value) Value {
		return Iface{T: in.fakeType(reflectTypeRT), V: Native{fakeRType{}}}
	}

	regSync()
}

type fakeRType struct{}

func (fakeRType) Size() uintptr { return 8 }

var reflectTypeRT = reflectTypeOf(fakeRType{})

func (in *Interp) bytesEq(a, b Slice) Value {
	if len(a.A) != len(b.A) {
		return false
	}
	var acc Value = true
	for i := range a.A {
		acc = in.and(acc, in.equals(a.A[i], b.A[i]))
		if bb, ok := acc.(bool); ok && !bb {
			return false
		}
	}
	return acc
}

// fmtArgs converts interface arguments to native Go values for formatting.
func (in *Interp) fmtArgs(s Slice) []any {
	out := make([]any, len(s.A))
	for i, a := range s.A {
		out[i] = in.fmtArg(a)
	}
	return out
}

func (in *Interp) fmtArg(a Value) any {
	itf, ok := a.(Iface)
	if !ok {
		return render(a)
	}
	if itf.T == nil {
		return nil
	}
	switch v := itf.V.(type) {
	case bool, string, float32, float64:
		return v
	case uint64:
		if w, signed, ok := intInfo(itf.T); ok {
			if signed {
				return sextW(v, w)
			}
		}
		return v
	case Native:
		return v.V
	case *term.Term:
		return "<sym>"
	case Slice:
		if sl, ok := itf.T.Underlying().(*types.Slice); ok {
			if b, ok := sl.Elem().Underlying().(*types.Basic); ok && b.Kind() == types.Uint8 {
				bs := make([]byte, len(v.A))
				for i, c := range v.A {
					if u, ok := c.(uint64); ok {
						bs[i] = byte(u)
					}
				}
				return bs
			}
		}
	}
	// error values implemented by interpreted code
	if m := in.Prog.LookupMethod(itf.T, nil, "Error"); m != nil && in.hasInterpMethods(itf.T) {
		return in.callFn(m, []Value{itf.V}, nil, nil)
	}
	return render(itf.V)
}
