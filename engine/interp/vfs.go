package interp

import (
	"errors"
	"fmt"
	"io/fs"
	"os"
	"strings"
	"time"

	"zsx/term"
)

// vfs is the virtual file system behind os.OpenFile/Open/Remove, *os.File and mmap.
type vfs struct {
	files    map[string]*vnode
	handles  []*vfile
	mappings map[*Value]*vmapping // keyed by the cell holding the MMap slice header's first element
	maps     []*vmapping
	faultOn  map[string]bool
	faulted  bool
	faultSeq int
	openFail string // "", "open", "mmap", "unmap"
	events   []string
	ops      int
}

type vnode struct {
	data []Value
}

type vfile struct {
	in     *Interp
	fs     *vfs
	path   string
	node   *vnode
	closed bool
	closes int
	rdonly bool
	pos    int // file position of this handle (writes overwrite from here, as without O_APPEND)
}

// put writes cells at the handle's position, overwriting or extending the file.
func (f *vfile) put(cells []Value) {
	for _, c := range cells {
		if f.pos < len(f.node.data) {
			f.node.data[f.pos] = copyVal(c)
		} else {
			f.node.data = append(f.node.data, copyVal(c))
		}
		f.pos++
	}
}

type vmapping struct {
	path     string
	unmapped int
	cells    []Value
}

func newVFS() *vfs {
	return &vfs{files: map[string]*vnode{}, mappings: map[*Value]*vmapping{}, faultOn: map[string]bool{}}
}

func (fs *vfs) event(e string) { fs.events = append(fs.events, e) }

var errInjected = errors.New("injected I/O fault")
var errNotExist error = &fs.PathError{Op: "open", Path: "(virtual)", Err: fs.ErrNotExist}

// vfileInfo is the FileInfo of a virtual file.
type vfileInfo struct {
	name string
	size int64
}

func (i vfileInfo) Name() string       { return i.name }
func (i vfileInfo) Size() int64        { return i.size }
func (i vfileInfo) Mode() fs.FileMode  { return 0600 }
func (i vfileInfo) ModTime() time.Time { return time.Time{} }
func (i vfileInfo) IsDir() bool        { return false }
func (i vfileInfo) Sys() any           { return nil }

// fault asks whether the current I/O operation on path fails (one fault per path, explored at every call).
func (f *vfile) fault(op string) bool {
	fs := f.fs
	if !fs.faultOn[f.path] || fs.faulted {
		return false
	}
	fs.faultSeq++
	name := fmt.Sprintf("fault#%d", fs.faultSeq)
	b := f.in.X.input(name, 0)
	if f.in.branch(b, name) {
		fs.faulted = true
		fs.event(fmt.Sprintf("fault %s %s #%d", op, f.path, fs.faultSeq))
		return true
	}
	return false
}

func (f *vfile) Write(p Slice) (int, error) {
	if f.closed {
		return 0, errors.New("write on closed file")
	}
	f.fs.ops++
	if f.fault("write") {
		// short write: none, half or all-but-one of the bytes are accepted
		n := 0
		if len(p.A) > 1 {
			name := fmt.Sprintf("short#%d", f.fs.faultSeq)
			c := f.in.X.input(name, 64).(*term.Term)
			f.in.X.assume(f.in.simp(f.in.T.Cmp(term.OULt, c, f.in.T.BV(64, 3))))
			switch f.in.concretize(c, name) {
			case 1:
				n = len(p.A) / 2
			case 2:
				n = len(p.A) - 1
			}
		}
		f.put(p.A[:n])
		f.in.X.noteInput("fault.armed", 1)
		f.in.X.noteInput("fault.offset", uint64(f.pos))
		return n, errInjected
	}
	f.put(p.A)
	return len(p.A), nil
}

func (f *vfile) Sync() error {
	if f.closed {
		return errors.New("sync on closed file")
	}
	f.fs.ops++
	if f.fault("sync") {
		return errInjected
	}
	f.fs.event("sync " + f.path)
	return nil
}

func (f *vfile) Close() error {
	f.closes++
	f.fs.event("close " + f.path)
	if f.closed {
		return errors.New("file already closed")
	}
	f.closed = true
	f.fs.ops++
	if f.fault("close") {
		return errInjected
	}
	return nil
}

func (f *vfile) Name() string { return f.path }

func init() {
	open := func(in *Interp, path string, create, rdonly bool) Value {
		fs := in.ghost.vfs
		if fs.openFail == "open" {
			fs.event("open-failed " + path)
			return Tuple{(*Value)(nil), in.nativeErrValue(errInjected)}
		}
		node := fs.files[path]
		if node == nil {
			if !create {
				return Tuple{(*Value)(nil), in.nativeErrValue(errNotExist)}
			}
			node = &vnode{}
			fs.files[path] = node
			fs.event("create " + path)
		}
		f := &vfile{in: in, fs: fs, path: path, node: node, rdonly: rdonly}
		fs.handles = append(fs.handles, f)
		fs.event("open " + path)
		return Tuple{Native{f}, Iface{}}
	}
	intrinsics["os.OpenFile"] = func(in *Interp, fr *frame, args []Value) Value {
		flag := args[1].(uint64)
		return open(in, args[0].(string), flag&0x40 != 0, false) // O_CREATE = 0x40 on linux
	}
	intrinsics["os.Open"] = func(in *Interp, fr *frame, args []Value) Value {
		return open(in, args[0].(string), false, true)
	}
	stat := func(in *Interp, fr *frame, args []Value) Value {
		fs := in.ghost.vfs
		path := args[0].(string)
		n, ok := fs.files[path]
		if !ok {
			return Tuple{Iface{}, in.nativeErrValue(errNotExist)}
		}
		fi := vfileInfo{name: path, size: int64(len(n.data))}
		return Tuple{Iface{T: in.fakeType(reflectTypeOf(fi)), V: Native{fi}}, Iface{}}
	}
	intrinsics["os.Stat"] = stat
	intrinsics["os.Lstat"] = stat
	nativeErrPred := func(pred func(error) bool) Intrinsic {
		return func(in *Interp, fr *frame, args []Value) Value {
			itf, _ := args[0].(Iface)
			if itf.T == nil {
				return false
			}
			if n, ok := itf.V.(Native); ok {
				if e, ok := n.V.(error); ok {
					return pred(e)
				}
			}
			return false
		}
	}
	intrinsics["os.IsNotExist"] = nativeErrPred(os.IsNotExist)
	intrinsics["os.IsExist"] = nativeErrPred(os.IsExist)
	intrinsics["os.Remove"] = func(in *Interp, fr *frame, args []Value) Value {
		fs := in.ghost.vfs
		path := args[0].(string)
		if _, ok := fs.files[path]; !ok {
			return in.nativeErrValue(errNotExist)
		}
		delete(fs.files, path)
		fs.event("remove " + path)
		return Iface{}
	}
	const pMmap = "github.com/blevesearch/mmap-go"
	intrinsics[pMmap+".Map"] = func(in *Interp, fr *frame, args []Value) Value {
		fs := in.ghost.vfs
		f := args[0].(Native).V.(*vfile)
		if fs.openFail == "mmap" {
			fs.event("mmap-failed " + f.path)
			return Tuple{Slice{}, in.nativeErrValue(errInjected)}
		}
		cells := make([]Value, len(f.node.data))
		for i, c := range f.node.data {
			cells[i] = c
		}
		m := &vmapping{path: f.path, cells: cells}
		fs.maps = append(fs.maps, m)
		if len(cells) > 0 {
			fs.mappings[&cells[0]] = m
		}
		fs.event("mmap " + f.path)
		return Tuple{Slice{cells}, Iface{}}
	}
	intrinsics["(*"+pMmap+".MMap).Unmap"] = func(in *Interp, fr *frame, args []Value) Value {
		fs := in.ghost.vfs
		p := args[0].(*Value)
		s := (*p).(Slice)
		var m *vmapping
		if len(s.A) > 0 {
			m = fs.mappings[&s.A[0]]
		}
		if m == nil {
			fs.event("unmap unknown")
			return in.nativeErrValue(errors.New("unmap of unknown mapping"))
		}
		m.unmapped++
		fs.event("unmap " + m.path)
		*p = Slice{}
		if fs.openFail == "unmap" {
			// the unmap system call fails (the slice header is cleared all the same, as the library does)
			return in.nativeErrValue(errInjected)
		}
		return Iface{}
	}

	H := harnessName
	intrinsics[H("vP")] = func(in *Interp, fr *frame, args []Value) Value { return "/v/" + args[0].(string) }
	intrinsics[H("vFSExists")] = func(in *Interp, fr *frame, args []Value) Value {
		_, ok := in.ghost.vfs.files[args[0].(string)]
		return ok
	}
	intrinsics[H("vFSBytes")] = func(in *Interp, fr *frame, args []Value) Value {
		n := in.ghost.vfs.files[args[0].(string)]
		if n == nil {
			return Slice{}
		}
		a := make([]Value, len(n.data))
		copy(a, n.data)
		return Slice{a}
	}
	intrinsics[H("vFSPut")] = func(in *Interp, fr *frame, args []Value) Value {
		s := args[1].(Slice)
		a := make([]Value, len(s.A))
		copy(a, s.A)
		in.ghost.vfs.files[args[0].(string)] = &vnode{data: a}
		return nil
	}
	intrinsics[H("vFSOpenHandles")] = func(in *Interp, fr *frame, args []Value) Value {
		n := 0
		for _, h := range in.ghost.vfs.handles {
			if !h.closed {
				n++
			}
		}
		return uint64(n)
	}
	intrinsics[H("vFSLiveMappings")] = func(in *Interp, fr *frame, args []Value) Value {
		n := 0
		for _, m := range in.ghost.vfs.maps {
			if m.unmapped == 0 {
				n++
			}
		}
		return uint64(n)
	}
	intrinsics[H("vFSEvents")] = func(in *Interp, fr *frame, args []Value) Value {
		// number of ledger events with the given prefix
		n := 0
		for _, e := range in.ghost.vfs.events {
			if strings.HasPrefix(e, args[0].(string)) {
				n++
			}
		}
		return uint64(n)
	}
	intrinsics[H("vFSFailWrites")] = func(in *Interp, fr *frame, args []Value) Value {
		in.ghost.vfs.faultOn[args[0].(string)] = true
		return nil
	}
	intrinsics[H("vFSDisarm")] = func(in *Interp, fr *frame, args []Value) Value {
		in.ghost.vfs.faultOn = map[string]bool{}
		return nil
	}
	intrinsics[H("vFSFaulted")] = func(in *Interp, fr *frame, args []Value) Value {
		return in.ghost.vfs.faulted
	}
	intrinsics[H("vFSFailOpen")] = func(in *Interp, fr *frame, args []Value) Value {
		in.ghost.vfs.openFail = args[0].(string)
		return nil
	}
}
