package interp

import (
	"fmt"
	"go/constant"
	"go/token"
	"go/types"
	"math"
	"strings"
	"unicode/utf8"

	"golang.org/x/tools/go/ssa"

	"zsx/term"
)

func (in *Interp) constValue(c *ssa.Const) Value {
	if c.Value == nil {
		return in.zero(c.Type())
	}
	return in.constValue1(c)
}

func (in *Interp) constValue1(c *ssa.Const) Value {
	t := c.Type()
	b, ok := t.Underlying().(*types.Basic)
	if !ok {
		// e.g. a type parameter or interface holding a constant: not expected here
		panic(abortPath{"unsupported", "constant of non-basic type " + t.String()})
	}
	switch {
	case b.Info()&types.IsBoolean != 0:
		return constant.BoolVal(c.Value)
	case b.Info()&types.IsInteger != 0:
		w, _, _ := intInfo(t)
		v := constant.ToInt(c.Value)
		if i, ok := constant.Int64Val(v); ok {
			return uint64(i) & maskW(w)
		}
		u, _ := constant.Uint64Val(v)
		return u & maskW(w)
	case b.Kind() == types.Float32:
		f, _ := constant.Float64Val(constant.ToFloat(c.Value))
		return float32(f)
	case b.Info()&types.IsFloat != 0:
		f, _ := constant.Float64Val(constant.ToFloat(c.Value))
		return f
	case b.Info()&types.IsString != 0:
		if c.Value.Kind() == constant.String {
			return constant.StringVal(c.Value)
		}
		i, _ := constant.Int64Val(constant.ToInt(c.Value))
		return string(rune(i))
	case b.Info()&types.IsComplex != 0:
		re, _ := constant.Float64Val(constant.Real(c.Value))
		im, _ := constant.Float64Val(constant.Imag(c.Value))
		return complex(re, im)
	}
	panic(fmt.Sprintf("constValue: %v", c))
}

func tokOp(op token.Token, signed bool) (term.Op, bool) {
	switch op {
	case token.ADD:
		return term.OAdd, true
	case token.SUB:
		return term.OSub, true
	case token.MUL:
		return term.OMul, true
	case token.QUO:
		if signed {
			return term.OSDiv, true
		}
		return term.OUDiv, true
	case token.REM:
		if signed {
			return term.OSRem, true
		}
		return term.OURem, true
	case token.AND:
		return term.OBAnd, true
	case token.OR:
		return term.OBOr, true
	case token.XOR:
		return term.OBXor, true
	}
	return 0, false
}

// binop evaluates x op y where both have static type t (for shifts y has type yt).
func (in *Interp) binop(op token.Token, t types.Type, x, y Value, yt types.Type) Value {
	switch op {
	case token.EQL:
		return in.equals(x, y)
	case token.NEQ:
		return in.not(in.equals(x, y))
	}
	if w, signed, ok := intInfo(t); ok {
		return in.intBinop(op, w, signed, x, y, yt)
	}
	switch x := x.(type) {
	case string:
		y := y.(string)
		switch op {
		case token.ADD:
			return x + y
		case token.LSS:
			return x < y
		case token.LEQ:
			return x <= y
		case token.GTR:
			return x > y
		case token.GEQ:
			return x >= y
		}
	case float64:
		y := y.(float64)
		switch op {
		case token.ADD:
			return x + y
		case token.SUB:
			return x - y
		case token.MUL:
			return x * y
		case token.QUO:
			return x / y
		case token.LSS:
			return x < y
		case token.LEQ:
			return x <= y
		case token.GTR:
			return x > y
		case token.GEQ:
			return x >= y
		}
	case float32:
		y := y.(float32)
		switch op {
		case token.ADD:
			return x + y
		case token.SUB:
			return x - y
		case token.MUL:
			return x * y
		case token.QUO:
			return x / y
		case token.LSS:
			return x < y
		case token.LEQ:
			return x <= y
		case token.GTR:
			return x > y
		case token.GEQ:
			return x >= y
		}
	case bool:
		// & | on booleans do not exist in Go; AND/OR only arise on ints
	case *term.Term:
		if x.W == 0 {
			panic(abortPath{"unsupported", "binop " + op.String() + " on symbolic bool"})
		}
	}
	panic(abortPath{"unsupported", fmt.Sprintf("binop %s on %T (%v)", op, x, t)})
}

func (in *Interp) intBinop(op token.Token, w int, signed bool, x, y Value, yt types.Type) Value {
	_, sx := x.(*term.Term)
	_, sy := y.(*term.Term)
	m := maskW(w)
	switch op {
	case token.SHL, token.SHR:
		yw, ysigned, _ := intInfo(yt)
		if ysigned {
			// negative shift count panics
			neg := in.intBinop(token.LSS, yw, true, y, uint64(0), yt)
			if in.branch(neg, "shift-negative") {
				in.goPanicf("runtime error: negative shift amount")
			}
		}
		if !sx && !sy {
			xv, yv := x.(uint64), y.(uint64)
			if op == token.SHL {
				if yv >= uint64(w) {
					return uint64(0)
				}
				return (xv << yv) & m
			}
			if signed {
				if yv >= uint64(w) {
					yv = uint64(w - 1)
				}
				return uint64(sextW(xv, w)>>yv) & m
			}
			if yv >= uint64(w) {
				return uint64(0)
			}
			return xv >> yv
		}
		tx := in.lift(x, w)
		tyv := in.lift(y, yw)
		// bring the count to width w, saturating
		var cnt *term.Term
		if yw <= w {
			cnt = in.T.ZExt(tyv, w)
		} else {
			big := in.T.Cmp(term.OULe, in.T.BV(yw, uint64(w)), tyv)
			cnt = in.T.Ite(big, in.T.BV(w, uint64(w)), in.T.Extract(tyv, w-1, 0))
		}
		var top term.Op
		switch {
		case op == token.SHL:
			top = term.OShl
		case signed:
			top = term.OAShr
		default:
			top = term.OLShr
		}
		return in.simp(in.T.Bin(top, tx, cnt))
	case token.QUO, token.REM:
		// division by zero panics
		isZero := in.equals(y, uint64(0))
		if in.branch(isZero, "div-by-zero") {
			in.goPanicf("runtime error: integer divide by zero")
		}
	}
	if !sx && !sy {
		xv, yv := x.(uint64), y.(uint64)
		switch op {
		case token.ADD:
			return (xv + yv) & m
		case token.SUB:
			return (xv - yv) & m
		case token.MUL:
			return (xv * yv) & m
		case token.QUO:
			if signed {
				a, b := sextW(xv, w), sextW(yv, w)
				if b == -1 {
					return uint64(-a) & m
				}
				return uint64(a/b) & m
			}
			return xv / yv
		case token.REM:
			if signed {
				a, b := sextW(xv, w), sextW(yv, w)
				if b == -1 {
					return uint64(0)
				}
				return uint64(a%b) & m
			}
			return xv % yv
		case token.AND:
			return xv & yv
		case token.OR:
			return xv | yv
		case token.XOR:
			return xv ^ yv
		case token.AND_NOT:
			return xv &^ yv
		case token.LSS:
			if signed {
				return sextW(xv, w) < sextW(yv, w)
			}
			return xv < yv
		case token.LEQ:
			if signed {
				return sextW(xv, w) <= sextW(yv, w)
			}
			return xv <= yv
		case token.GTR:
			if signed {
				return sextW(xv, w) > sextW(yv, w)
			}
			return xv > yv
		case token.GEQ:
			if signed {
				return sextW(xv, w) >= sextW(yv, w)
			}
			return xv >= yv
		}
		panic("intBinop: " + op.String())
	}
	tx, ty := in.lift(x, w), in.lift(y, w)
	if top, ok := tokOp(op, signed); ok {
		return in.simp(in.T.Bin(top, tx, ty))
	}
	lt, le := term.OULt, term.OULe
	if signed {
		lt, le = term.OSLt, term.OSLe
	}
	switch op {
	case token.AND_NOT:
		return in.simp(in.T.Bin(term.OBAnd, tx, in.T.BNot(ty)))
	case token.LSS:
		return in.simp(in.T.Cmp(lt, tx, ty))
	case token.LEQ:
		return in.simp(in.T.Cmp(le, tx, ty))
	case token.GTR:
		return in.simp(in.T.Cmp(lt, ty, tx))
	case token.GEQ:
		return in.simp(in.T.Cmp(le, ty, tx))
	}
	panic("intBinop sym: " + op.String())
}

func (in *Interp) unop(instr *ssa.UnOp, x Value) Value {
	switch instr.Op {
	case token.MUL: // load
		p, ok := x.(*Value)
		if !ok {
			panic(abortPath{"unsupported", fmt.Sprintf("load through %T", x)})
		}
		if p == nil {
			in.goPanicf("runtime error: invalid memory address or nil pointer dereference")
		}
		in.monLoad(p)
		return copyVal(*p)
	case token.NOT:
		return in.not(x)
	case token.SUB:
		switch x := x.(type) {
		case uint64:
			w, _, _ := intInfo(instr.X.Type())
			return (-x) & maskW(w)
		case float64:
			return -x
		case float32:
			return -x
		case *term.Term:
			return in.simp(in.T.Neg(x))
		}
	case token.XOR:
		switch x := x.(type) {
		case uint64:
			w, _, _ := intInfo(instr.X.Type())
			return (^x) & maskW(w)
		case *term.Term:
			return in.simp(in.T.BNot(x))
		}
	case token.ARROW:
		ch := x.(*Chan)
		if ch == nil {
			panic(abortPath{"unsupported", "receive from nil channel (blocks forever)"})
		}
		var v Value
		ok := false
		if len(ch.Buf) > 0 {
			v, ch.Buf = ch.Buf[0], ch.Buf[1:]
			ok = true
		} else if ch.Closed {
			v = in.zero(instr.X.Type().Underlying().(*types.Chan).Elem())
		} else {
			panic(abortPath{"unsupported", "blocking receive on empty channel"})
		}
		if instr.CommaOk {
			return Tuple{v, ok}
		}
		return v
	}
	panic(abortPath{"unsupported", fmt.Sprintf("unop %s on %T", instr.Op, x)})
}

// conv converts x from type src to dst.
func (in *Interp) conv(dst, src types.Type, x Value) Value {
	ud, us := dst.Underlying(), src.Underlying()
	// pointer / unsafe conversions
	switch ud.(type) {
	case *types.Pointer, *types.Signature, *types.Map, *types.Chan, *types.Struct, *types.Array, *types.Interface:
		return x
	}
	if b, ok := ud.(*types.Basic); ok && b.Kind() == types.UnsafePointer {
		return x
	}
	if b, ok := us.(*types.Basic); ok && b.Kind() == types.UnsafePointer {
		return x
	}
	dw, _, dint := intInfo(dst)
	sw, ssigned, sint := intInfo(src)
	switch {
	case dint && sint:
		switch x := x.(type) {
		case uint64:
			if ssigned {
				return uint64(sextW(x, sw)) & maskW(dw)
			}
			return x & maskW(dw)
		case *term.Term:
			if ssigned {
				return in.simp(in.T.SExt(x, dw))
			}
			return in.simp(in.T.ZExt(x, dw))
		}
	case dint: // float -> int, or string?
		switch x := x.(type) {
		case float64:
			return floatToInt(x, dw, dst)
		case float32:
			return floatToInt(float64(x), dw, dst)
		}
	case sint:
		db, _ := ud.(*types.Basic)
		if db != nil && db.Info()&types.IsFloat != 0 {
			xv, ok := x.(uint64)
			if !ok {
				panic(abortPath{"unsupported", "symbolic int to float"})
			}
			var f float64
			if ssigned {
				f = float64(sextW(xv, sw))
			} else {
				f = float64(xv)
			}
			if db.Kind() == types.Float32 {
				return float32(f)
			}
			return f
		}
		if db != nil && db.Info()&types.IsString != 0 {
			xv, ok := x.(uint64)
			if !ok {
				panic(abortPath{"unsupported", "symbolic int to string"})
			}
			return string(rune(sextW(xv, sw)))
		}
	}
	if db, ok := ud.(*types.Basic); ok {
		switch {
		case db.Info()&types.IsFloat != 0:
			var f float64
			switch x := x.(type) {
			case float64:
				f = x
			case float32:
				f = float64(x)
			default:
				panic(abortPath{"unsupported", fmt.Sprintf("conv %T to float", x)})
			}
			if db.Kind() == types.Float32 {
				return float32(f)
			}
			return f
		case db.Info()&types.IsString != 0:
			switch x := x.(type) {
			case string:
				return x
			case Slice:
				el := us.(*types.Slice).Elem().Underlying().(*types.Basic)
				if el.Kind() == types.Uint8 {
					return string(in.concBytes(x, "[]byte to string"))
				}
				rs := make([]rune, len(x.A))
				for i, c := range x.A {
					rs[i] = rune(c.(uint64))
				}
				return string(rs)
			}
		}
	}
	if ds, ok := ud.(*types.Slice); ok {
		switch x := x.(type) {
		case string:
			el := ds.Elem().Underlying().(*types.Basic)
			if el.Kind() == types.Uint8 {
				a := make([]Value, len(x))
				for i := 0; i < len(x); i++ {
					a[i] = uint64(x[i])
				}
				return Slice{a}
			}
			var a []Value
			for _, r := range x {
				a = append(a, uint64(uint32(r)))
			}
			if a == nil {
				a = []Value{}
			}
			return Slice{a}
		case Slice:
			return x
		}
	}
	panic(abortPath{"unsupported", fmt.Sprintf("conv %v -> %v (%T)", src, dst, x)})
}

func floatToInt(f float64, w int, dst types.Type) Value {
	_, signed, _ := intInfo(dst)
	if signed {
		return uint64(int64(f)) & maskW(w)
	}
	return uint64(f) & maskW(w)
}

// concBytes extracts concrete bytes from a slice value.
func (in *Interp) concBytes(s Slice, what string) []byte {
	out := make([]byte, len(s.A))
	for i, c := range s.A {
		switch c := c.(type) {
		case uint64:
			out[i] = byte(c)
		case *term.Term:
			out[i] = byte(in.concretize(c, what))
		default:
			panic(fmt.Sprintf("concBytes: %T", c))
		}
	}
	return out
}

func bytesToSlice(b []byte) Slice {
	if b == nil {
		return Slice{}
	}
	a := make([]Value, len(b), cap(b))
	for i, c := range b {
		a[i] = uint64(c)
	}
	// cells beyond len within cap must be valid zero bytes
	full := a[:cap(a)]
	for i := len(b); i < len(full); i++ {
		full[i] = uint64(0)
	}
	return Slice{a}
}

var _ = math.Float32bits
var _ = utf8.RuneLen
var _ = strings.Compare
