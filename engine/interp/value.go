package interp

import (
	"fmt"
	"go/types"
	"sort"
	"strings"

	"golang.org/x/tools/go/ssa"

	"zsx/term"
)

// Value is one of:
//
//	bool, uint64 (every integer kind; bit pattern truncated to the width of the
//	static type), float32, float64, string, complex128  — concrete scalars
//	*term.Term                                           — symbolic Bool / bit-vector
//	*Value (Ptr)                                         — pointer to a cell
//	Struct, Array, Slice, *Map, Iface, Tuple, *Chan
//	*ssa.Function, *ssa.Builtin, *Closure               — function values
//	Native                                               — library-backed object
type Value = any

type Struct []Value
type Array []Value
type Tuple []Value

// Slice is a Go slice over cells; A == nil is the nil slice.
type Slice struct{ A []Value }

type Iface struct {
	T types.Type // nil for the nil interface
	V Value
}

type Closure struct {
	Fn  *ssa.Function
	Env []Value
}

// Native wraps a value that lives in native Go (a library object).
type Native struct{ V any }

type Chan struct {
	Closed bool
	Buf    []Value
	// ClosePoll >= 0: the channel becomes closed at the ClosePoll-th poll (0 = already closed)
	Polls     int
	CloseAt   int
	PollSites []string
	Counter   *Value // harness counter of writes, read when the channel closes
}

// Map is an insertion-ordered map with concrete keys.
type Map struct {
	idx  map[any]int
	keys []Value
	vals []Value
	live []bool
	n    int
}

func NewMap() *Map { return &Map{idx: map[any]int{}} }

func (m *Map) Len() int {
	if m == nil {
		return 0
	}
	return m.n
}

func (m *Map) Get(k Value) (Value, bool) {
	if m == nil {
		return nil, false
	}
	i, ok := m.idx[mapKey(k)]
	if !ok {
		return nil, false
	}
	return m.vals[i], true
}

func (m *Map) Set(k, v Value) {
	kk := mapKey(k)
	if i, ok := m.idx[kk]; ok {
		m.vals[i] = v
		return
	}
	m.idx[kk] = len(m.keys)
	m.keys = append(m.keys, k)
	m.vals = append(m.vals, v)
	m.live = append(m.live, true)
	m.n++
}

func (m *Map) Delete(k Value) {
	if m == nil {
		return
	}
	kk := mapKey(k)
	if i, ok := m.idx[kk]; ok {
		delete(m.idx, kk)
		m.live[i] = false
		m.keys[i], m.vals[i] = nil, nil
		m.n--
	}
}

// Keys returns the live keys in insertion order.
func (m *Map) Keys() []Value {
	if m == nil {
		return nil
	}
	out := make([]Value, 0, m.n)
	for i, k := range m.keys {
		if m.live[i] {
			out = append(out, k)
		}
	}
	return out
}

type ifaceKey struct {
	t string
	v any
}

// mapKey turns a concrete value into a comparable Go value.
func mapKey(v Value) any {
	switch v := v.(type) {
	case bool, uint64, float32, float64, string, *Value, *Map, *Chan, *ssa.Function, *Closure:
		return v
	case nil:
		return nil
	case Native:
		return v.V
	case Iface:
		if v.T == nil {
			return ifaceKey{}
		}
		return ifaceKey{v.T.String(), mapKey(v.V)}
	case Struct:
		var sb strings.Builder
		for _, f := range v {
			fmt.Fprintf(&sb, "%T:%v|", f, mapKey(f))
		}
		return "S{" + sb.String() + "}"
	case Array:
		var sb strings.Builder
		for _, f := range v {
			fmt.Fprintf(&sb, "%T:%v|", f, mapKey(f))
		}
		return "A{" + sb.String() + "}"
	case *term.Term:
		panic(abortPath{"unsupported", "symbolic map key"})
	}
	panic(fmt.Sprintf("mapKey: %T", v))
}

// copyVal makes a deep copy of aggregates with value semantics.
func copyVal(v Value) Value {
	switch v := v.(type) {
	case Struct:
		c := make(Struct, len(v))
		for i := range v {
			c[i] = copyVal(v[i])
		}
		return c
	case Array:
		c := make(Array, len(v))
		for i := range v {
			c[i] = copyVal(v[i])
		}
		return c
	}
	return v
}

// store writes v into the cell, field by field for aggregates so that interior
// pointers stay valid.
func store(addr *Value, v Value) {
	switch v := v.(type) {
	case Struct:
		if a, ok := (*addr).(Struct); ok && len(a) == len(v) {
			for i := range a {
				store(&a[i], v[i])
			}
			return
		}
		*addr = copyVal(v)
	case Array:
		if a, ok := (*addr).(Array); ok && len(a) == len(v) {
			for i := range a {
				store(&a[i], v[i])
			}
			return
		}
		*addr = copyVal(v)
	default:
		*addr = v
	}
}

func intInfo(t types.Type) (w int, signed bool, ok bool) {
	b, isb := t.Underlying().(*types.Basic)
	if !isb {
		return 0, false, false
	}
	switch b.Kind() {
	case types.Int8:
		return 8, true, true
	case types.Int16:
		return 16, true, true
	case types.Int32, types.UntypedRune:
		return 32, true, true
	case types.Int64, types.Int, types.UntypedInt:
		return 64, true, true
	case types.Uint8:
		return 8, false, true
	case types.Uint16:
		return 16, false, true
	case types.Uint32:
		return 32, false, true
	case types.Uint64, types.Uint, types.Uintptr:
		return 64, false, true
	}
	return 0, false, false
}

func maskW(w int) uint64 {
	if w >= 64 {
		return ^uint64(0)
	}
	return (uint64(1) << uint(w)) - 1
}

func sextW(v uint64, w int) int64 {
	if w >= 64 {
		return int64(v)
	}
	sh := uint(64 - w)
	return int64(v<<sh) >> sh
}

// zero returns the zero value of type t.
func (in *Interp) zero(t types.Type) Value {
	switch t := t.(type) {
	case *types.Named, *types.Alias:
		return in.zero(t.Underlying())
	case *types.Basic:
		switch {
		case t.Kind() == types.UntypedNil:
			return (*Value)(nil)
		case t.Info()&types.IsBoolean != 0:
			return false
		case t.Info()&types.IsInteger != 0:
			return uint64(0)
		case t.Kind() == types.Float32:
			return float32(0)
		case t.Info()&types.IsFloat != 0:
			return float64(0)
		case t.Info()&types.IsString != 0:
			return ""
		case t.Info()&types.IsComplex != 0:
			return complex128(0)
		case t.Kind() == types.UnsafePointer:
			return (*Value)(nil)
		}
	case *types.Pointer:
		return (*Value)(nil)
	case *types.Struct:
		s := make(Struct, t.NumFields())
		for i := range s {
			s[i] = in.zero(t.Field(i).Type())
		}
		return s
	case *types.Array:
		n := int(t.Len())
		a := make(Array, n)
		ez := in.zero(t.Elem())
		for i := range a {
			if i == 0 {
				a[i] = ez
			} else {
				a[i] = copyVal(ez)
			}
		}
		return a
	case *types.Slice:
		return Slice{}
	case *types.Map:
		return (*Map)(nil)
	case *types.Interface:
		return Iface{}
	case *types.Signature:
		return (*Closure)(nil)
	case *types.Chan:
		return (*Chan)(nil)
	case *types.Tuple:
		if t.Len() == 1 {
			return in.zero(t.At(0).Type())
		}
		tp := make(Tuple, t.Len())
		for i := range tp {
			tp[i] = in.zero(t.At(i).Type())
		}
		return tp
	case *types.TypeParam:
		panic(abortPath{"unsupported", "zero of type parameter"})
	}
	panic(fmt.Sprintf("zero: %T %v", t, t))
}

func isNilValue(v Value) bool {
	switch v := v.(type) {
	case nil:
		return true
	case *Value:
		return v == nil
	case Slice:
		return v.A == nil
	case *Map:
		return v == nil
	case Iface:
		return v.T == nil
	case *Closure:
		return v == nil
	case *Chan:
		return v == nil
	case *ssa.Function:
		return v == nil
	}
	return false
}

// equals compares two values; the result is bool or a Bool *term.Term.
func (in *Interp) equals(x, y Value) Value {
	tx, sx := x.(*term.Term)
	ty, sy := y.(*term.Term)
	if sx || sy {
		if !sx {
			tx = in.lift(x, ty.W)
		}
		if !sy {
			ty = in.lift(y, tx.W)
		}
		return in.simp(in.T.Eq(tx, ty))
	}
	switch x := x.(type) {
	case bool:
		return x == y.(bool)
	case uint64:
		return x == y.(uint64)
	case float32:
		return x == y.(float32)
	case float64:
		return x == y.(float64)
	case string:
		return x == y.(string)
	case complex128:
		return x == y.(complex128)
	case *Value:
		switch y := y.(type) {
		case *Value:
			return x == y
		case Native:
			return false
		}
		return x == nil && isNilValue(y)
	case Native:
		if yn, ok := y.(Native); ok {
			return nativeEq(x.V, yn.V)
		}
		return false
	case *Map:
		ym, _ := y.(*Map)
		return x == ym
	case *Chan:
		yc, _ := y.(*Chan)
		return x == yc
	case Slice:
		// only comparison with nil is legal
		return x.A == nil && isNilValue(y)
	case *Closure:
		if x == nil {
			return isNilValue(y)
		}
		return false
	case *ssa.Function:
		return isNilValue(y) && x == nil
	case *ssa.Builtin:
		return false
	case Iface:
		yi, ok := y.(Iface)
		if !ok {
			return x.T == nil && isNilValue(y)
		}
		if x.T == nil || yi.T == nil {
			return x.T == nil && yi.T == nil
		}
		if !types.Identical(x.T, yi.T) {
			return false
		}
		return in.equals(x.V, yi.V)
	case Struct:
		ys := y.(Struct)
		var acc Value = true
		for i := range x {
			acc = in.and(acc, in.equals(x[i], ys[i]))
			if b, ok := acc.(bool); ok && !b {
				return false
			}
		}
		return acc
	case Array:
		ys := y.(Array)
		var acc Value = true
		for i := range x {
			acc = in.and(acc, in.equals(x[i], ys[i]))
			if b, ok := acc.(bool); ok && !b {
				return false
			}
		}
		return acc
	case nil:
		return isNilValue(y)
	}
	panic(fmt.Sprintf("equals: %T vs %T", x, y))
}

func nativeEq(a, b any) (r bool) {
	defer func() {
		if recover() != nil {
			r = false
		}
	}()
	return a == b
}

// lift turns a concrete scalar into a constant term of width w (0 = Bool).
func (in *Interp) lift(v Value, w int) *term.Term {
	switch v := v.(type) {
	case *term.Term:
		return v
	case bool:
		return in.T.Bool(v)
	case uint64:
		return in.T.BV(w, v)
	}
	panic(fmt.Sprintf("lift: %T", v))
}

func (in *Interp) and(a, b Value) Value {
	ab, ac := a.(bool)
	bb, bc := b.(bool)
	if ac && bc {
		return ab && bb
	}
	if ac {
		if !ab {
			return false
		}
		return b
	}
	if bc {
		if !bb {
			return false
		}
		return a
	}
	return in.simp(in.T.And(a.(*term.Term), b.(*term.Term)))
}

func (in *Interp) or(a, b Value) Value {
	ab, ac := a.(bool)
	bb, bc := b.(bool)
	if ac && bc {
		return ab || bb
	}
	if ac {
		if ab {
			return true
		}
		return b
	}
	if bc {
		if bb {
			return true
		}
		return a
	}
	return in.simp(in.T.Or(a.(*term.Term), b.(*term.Term)))
}

func (in *Interp) not(a Value) Value {
	if b, ok := a.(bool); ok {
		return !b
	}
	return in.simp(in.T.Not(a.(*term.Term)))
}

// simp turns constant terms back into concrete values.
func (in *Interp) simp(t *term.Term) Value {
	if t.IsConst() {
		if t.W == 0 {
			return t.K == 1
		}
		return t.K
	}
	return t
}

// render produces a stable textual form of a value (for observations and reports).
func render(v Value) string {
	var sb strings.Builder
	renderTo(&sb, v, 0)
	return sb.String()
}

func renderTo(sb *strings.Builder, v Value, depth int) {
	if depth > 8 {
		sb.WriteString("…")
		return
	}
	switch v := v.(type) {
	case nil:
		sb.WriteString("nil")
	case bool, uint64, float32, float64:
		fmt.Fprintf(sb, "%v", v)
	case string:
		fmt.Fprintf(sb, "%q", v)
	case *term.Term:
		sb.WriteString(v.String())
	case *Value:
		if v == nil {
			sb.WriteString("nil")
		} else {
			sb.WriteString("&")
			renderTo(sb, *v, depth+1)
		}
	case Struct:
		sb.WriteString("{")
		for i, f := range v {
			if i > 0 {
				sb.WriteString(" ")
			}
			renderTo(sb, f, depth+1)
		}
		sb.WriteString("}")
	case Array:
		sb.WriteString("[")
		for i, f := range v {
			if i > 0 {
				sb.WriteString(" ")
			}
			renderTo(sb, f, depth+1)
		}
		sb.WriteString("]")
	case Slice:
		if v.A == nil {
			sb.WriteString("nil")
			return
		}
		sb.WriteString("[")
		for i, f := range v.A {
			if i > 0 {
				sb.WriteString(" ")
			}
			renderTo(sb, f, depth+1)
		}
		sb.WriteString("]")
	case Tuple:
		sb.WriteString("(")
		for i, f := range v {
			if i > 0 {
				sb.WriteString(", ")
			}
			renderTo(sb, f, depth+1)
		}
		sb.WriteString(")")
	case Iface:
		if v.T == nil {
			sb.WriteString("nil")
		} else {
			renderTo(sb, v.V, depth+1)
		}
	case *Map:
		if v == nil {
			sb.WriteString("nil")
			return
		}
		type kv struct{ k, v string }
		var kvs []kv
		for _, k := range v.Keys() {
			val, _ := v.Get(k)
			kvs = append(kvs, kv{render(k), render(val)})
		}
		sort.Slice(kvs, func(i, j int) bool { return kvs[i].k < kvs[j].k })
		sb.WriteString("map[")
		for i, e := range kvs {
			if i > 0 {
				sb.WriteString(" ")
			}
			sb.WriteString(e.k + ":" + e.v)
		}
		sb.WriteString("]")
	case Native:
		fmt.Fprintf(sb, "native(%T)", v.V)
	default:
		fmt.Fprintf(sb, "%T", v)
	}
}
