package interp

import (
	faiss "github.com/blevesearch/go-faiss"
)

const pFaiss = "github.com/blevesearch/go-faiss"

func init() {
	regNative(pFaiss+".IndexFactory", faiss.IndexFactory)
	regNative(pFaiss+".ReadIndexFromBuffer", faiss.ReadIndexFromBuffer)
	regNative(pFaiss+".WriteIndexIntoBuffer", faiss.WriteIndexIntoBuffer)
	regNative(pFaiss+".NewIDSelectorBatch", faiss.NewIDSelectorBatch)
	regNative(pFaiss+".NewIDSelectorNot", faiss.NewIDSelectorNot)
	regNative(pFaiss+".SetOMPThreads", faiss.SetOMPThreads)
	regNative(pFaiss+".VerifReset", faiss.VerifReset)
	regNative(pFaiss+".VerifFail", faiss.VerifFail)
	regNative(pFaiss+".VerifCalls", faiss.VerifCalls)
	regNative(pFaiss+".VerifLive", faiss.VerifLive)
	regNative(pFaiss+".VerifCreated", faiss.VerifCreated)
	regNative(pFaiss+".VerifClosed", faiss.VerifClosed)
	regNative(pFaiss+".VerifDoubleClosed", faiss.VerifDoubleClosed)
	regNative(pFaiss+".VerifUsedAfterClose", faiss.VerifUsedAfterClose)
	regNative(pFaiss+".VerifSelectorsLive", faiss.VerifSelectorsLive)
	resetHooks = append(resetHooks, faiss.VerifReset)

	randSeq := int64(0)
	resetHooks = append(resetHooks, func() { randSeq = 0 })
	intrinsics["math/rand.Int31"] = func(in *Interp, fr *frame, args []Value) Value {
		randSeq++
		return uint64(randSeq) & 0x7fffffff
	}
	// the timer-driven cache monitor is not run; expiry passes are explicit harness events
	intrinsics["(*github.com/blevesearch/zapx/v16.vectorIndexCache).monitor"] = func(in *Interp, fr *frame, args []Value) Value { return nil }
}
