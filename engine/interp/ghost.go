package interp

import (
	"fmt"
	"go/types"
	"reflect"

	"zsx/term"
)

func reflectTypeOf(x any) reflect.Type { return reflect.TypeOf(x) }

// ghostState holds the models of sync primitives and the monitors' bookkeeping.
type ghostState struct {
	pools     map[*Value]*poolState
	poolFork  bool // Get may return any pooled object or a fresh one (forked)
	poolSeq   int
	mutexes   map[*Value]*mutexState
	onces     map[*Value]bool
	crcNative bool

	// ownership monitor
	ownMon   bool
	released map[*Value]string // object root cell -> where it was Put
	events   []string

	// effect monitor
	effMon     bool
	shared     map[*Value]bool
	sharedMaps map[*Map]bool
	frozen     map[*Value]string
	private    map[*Value]bool
	guards     map[*Value]*Value // guarded cell -> mutex cell
	guardsAny  map[*Value]bool   // guarded cells whose accesses (atomic ones) only need the mutex in any mode
	mapGuards  map[*Map]*Value   // guarded map -> mutex cell
	atomicOp   int

	// ledger
	ledger []string

	vfs *vfs

	cancelChan *Chan

	handles []*term.Term // symbolic values parked inside native structures (tagged handles)
}

type poolState struct {
	items []Value
	outs  map[*Value]bool
	gets  int
	puts  int
}

type mutexState struct {
	locked  bool
	readers int
}

func newGhostState() *ghostState {
	return &ghostState{pools: map[*Value]*poolState{}, mutexes: map[*Value]*mutexState{}, onces: map[*Value]bool{},
		released: map[*Value]string{}, shared: map[*Value]bool{}, sharedMaps: map[*Map]bool{}, frozen: map[*Value]string{},
		private: map[*Value]bool{}, guards: map[*Value]*Value{}, guardsAny: map[*Value]bool{}, mapGuards: map[*Map]*Value{}, vfs: newVFS()}
}

func (in *Interp) monAlloc(p *Value) {}

func (in *Interp) monLoad(p *Value) {
	g := in.ghost
	if g.ownMon {
		if where, ok := g.released[p]; ok {
			in.X.assert(false, "use-after-put")
			_ = where
		}
	}
	if len(g.guards) > 0 {
		if mu, ok := g.guards[p]; ok {
			ms := g.mutexes[mu]
			if ms == nil || (!ms.locked && ms.readers == 0) {
				in.X.assert(false, "guarded-read-without-lock")
			}
		}
	}
}

func (in *Interp) monStore(p *Value) { in.monStoreCell(p) }

func (in *Interp) monStoreCell(p *Value) {
	g := in.ghost
	if g.ownMon {
		if _, ok := g.released[p]; ok {
			in.X.assert(false, "use-after-put")
		}
	}
	if msg, ok := g.frozen[p]; ok {
		in.X.assert(false, "write-to-frozen:"+msg)
	}
	if g.effMon && g.shared[p] && g.atomicOp == 0 {
		if mu, ok := g.guards[p]; ok {
			if ms := g.mutexes[mu]; ms != nil && ms.locked {
				return
			}
		}
		in.X.assert(false, "write-to-shared")
	}
	if len(g.guards) > 0 && g.atomicOp == 0 {
		if mu, ok := g.guards[p]; ok {
			if ms := g.mutexes[mu]; ms == nil || !ms.locked {
				in.X.assert(false, "guarded-write-without-lock")
			}
		}
	}
}

// monMapAccess enforces the lockset discipline on maps declared guarded-by a mutex.
func (in *Interp) monMapAccess(m *Map, write bool) {
	if m == nil || len(in.ghost.mapGuards) == 0 {
		return
	}
	mu, ok := in.ghost.mapGuards[m]
	if !ok {
		return
	}
	ms := in.ghost.mutexes[mu]
	held := ms != nil && (ms.locked || (!write && ms.readers > 0))
	if !held {
		if write {
			in.X.assert(false, "guarded-map-write-without-lock")
		} else {
			in.X.assert(false, "guarded-map-read-without-lock")
		}
	}
}

func (in *Interp) monMapWrite(m *Map) {
	in.monMapAccess(m, true)
	g := in.ghost
	if g.effMon && g.sharedMaps[m] {
		// map writes are legal only under a held write lock of some guard registered for the map's holder;
		// the harness registers the holder cell via vGuard, checked there. Here: any locked mutex suffices.
		for _, ms := range g.mutexes {
			if ms.locked {
				return
			}
		}
		in.X.assert(false, "write-to-shared-map")
	}
}

// reachable collects the cells reachable from v (through pointers, slices, structs, maps).
func reachable(v Value, cells map[*Value]bool, maps map[*Map]bool, depth int) {
	if depth > 64 {
		return
	}
	switch v := v.(type) {
	case *Value:
		if v == nil || cells[v] {
			return
		}
		cells[v] = true
		reachable(*v, cells, maps, depth+1)
	case Struct:
		for i := range v {
			cells[&v[i]] = true
			reachable(v[i], cells, maps, depth+1)
		}
	case Array:
		for i := range v {
			cells[&v[i]] = true
			reachable(v[i], cells, maps, depth+1)
		}
	case Slice:
		full := v.A[:cap(v.A)]
		for i := range full {
			if cells[&full[i]] {
				continue
			}
			cells[&full[i]] = true
			reachable(full[i], cells, maps, depth+1)
		}
	case Iface:
		reachable(v.V, cells, maps, depth+1)
	case *Map:
		if v == nil || maps[v] {
			return
		}
		maps[v] = true
		for _, k := range v.Keys() {
			val, _ := v.Get(k)
			reachable(val, cells, maps, depth+1)
		}
	case *Closure:
		if v != nil {
			for _, e := range v.Env {
				reachable(e, cells, maps, depth+1)
			}
		}
	}
}

func fieldIndex(t types.Type, name string) int {
	st := t.Underlying().(*types.Struct)
	for i := 0; i < st.NumFields(); i++ {
		if st.Field(i).Name() == name {
			return i
		}
	}
	panic("no field " + name)
}

func (in *Interp) pool(p *Value) *poolState {
	ps := in.ghost.pools[p]
	if ps == nil {
		ps = &poolState{outs: map[*Value]bool{}}
		in.ghost.pools[p] = ps
	}
	return ps
}

func regSync() {
	intrinsics["(*sync.Pool).Get"] = func(in *Interp, fr *frame, args []Value) Value {
		p := args[0].(*Value)
		ps := in.pool(p)
		ps.gets++
		pick := -1
		if n := len(ps.items); n > 0 {
			if in.ghost.poolFork {
				in.ghost.poolSeq++
				name := fmt.Sprintf("pool.get#%d", in.ghost.poolSeq)
				c := in.X.input(name, 64).(*term.Term)
				in.X.assume(in.simp(in.T.Cmp(term.OULe, c, in.T.BV(64, uint64(n)))))
				k := int(in.concretize(c, name))
				if k < n {
					pick = k
				}
			} else {
				pick = n - 1
			}
		}
		var obj Value
		if pick >= 0 {
			obj = ps.items[pick]
			ps.items = append(ps.items[:pick:pick], ps.items[pick+1:]...)
			if op, ok := obj.(Iface); ok {
				if cell, ok := op.V.(*Value); ok {
					in.unrelease(cell)
				}
			}
		} else {
			// New()
			var st types.Type
			for _, pkgT := range []string{"sync"} {
				_ = pkgT
			}
			s := (*p).(Struct)
			newFn := s[len(s)-1] // field New is the last field of sync.Pool
			if isNilValue(newFn) {
				return Iface{}
			}
			obj = in.call(newFn, nil, fr, nil)
			_ = st
		}
		if op, ok := obj.(Iface); ok {
			if cell, ok := op.V.(*Value); ok {
				ps.outs[cell] = true
			}
		}
		in.ghost.events = append(in.ghost.events, "get")
		return obj
	}
	intrinsics["(*sync.Pool).Put"] = func(in *Interp, fr *frame, args []Value) Value {
		p := args[0].(*Value)
		ps := in.pool(p)
		ps.puts++
		obj := args[1]
		if op, ok := obj.(Iface); ok {
			if cell, ok := op.V.(*Value); ok && cell != nil {
				if in.ghost.ownMon {
					for _, it := range ps.items {
						if io, ok := it.(Iface); ok {
							if c2, ok := io.V.(*Value); ok && c2 == cell {
								in.X.assert(false, "double-put")
							}
						}
					}
					if !ps.outs[cell] {
						// an object that never came from Get may legally be Put; not flagged
					}
				}
				delete(ps.outs, cell)
				if in.ghost.ownMon {
					in.release(cell, "Put")
				}
			}
		}
		ps.items = append(ps.items, obj)
		in.ghost.events = append(in.ghost.events, "put")
		return nil
	}

	mu := func(in *Interp, p Value) *mutexState {
		c := p.(*Value)
		ms := in.ghost.mutexes[c]
		if ms == nil {
			ms = &mutexState{}
			in.ghost.mutexes[c] = ms
		}
		return ms
	}
	intrinsics["(*sync.Mutex).Lock"] = func(in *Interp, fr *frame, args []Value) Value {
		ms := mu(in, args[0])
		if ms.locked {
			in.X.assert(false, "self-deadlock")
		}
		ms.locked = true
		return nil
	}
	intrinsics["(*sync.Mutex).Unlock"] = func(in *Interp, fr *frame, args []Value) Value {
		ms := mu(in, args[0])
		if !ms.locked {
			in.goPanicf("sync: unlock of unlocked mutex")
		}
		ms.locked = false
		return nil
	}
	intrinsics["(*sync.RWMutex).Lock"] = func(in *Interp, fr *frame, args []Value) Value {
		ms := mu(in, args[0])
		if ms.locked || ms.readers > 0 {
			in.X.assert(false, "self-deadlock")
		}
		ms.locked = true
		return nil
	}
	intrinsics["(*sync.RWMutex).Unlock"] = func(in *Interp, fr *frame, args []Value) Value {
		ms := mu(in, args[0])
		if !ms.locked {
			in.goPanicf("sync: Unlock of unlocked RWMutex")
		}
		ms.locked = false
		return nil
	}
	intrinsics["(*sync.RWMutex).RLock"] = func(in *Interp, fr *frame, args []Value) Value {
		ms := mu(in, args[0])
		if ms.locked {
			in.X.assert(false, "self-deadlock")
		}
		ms.readers++
		return nil
	}
	intrinsics["(*sync.RWMutex).RUnlock"] = func(in *Interp, fr *frame, args []Value) Value {
		ms := mu(in, args[0])
		if ms.readers <= 0 {
			in.goPanicf("sync: RUnlock of unlocked RWMutex")
		}
		ms.readers--
		return nil
	}
	intrinsics["(*sync.Once).Do"] = func(in *Interp, fr *frame, args []Value) Value {
		c := args[0].(*Value)
		if !in.ghost.onces[c] {
			in.ghost.onces[c] = true
			in.call(args[1], nil, fr, nil)
		}
		return nil
	}
	intrinsics["(*sync.WaitGroup).Add"] = func(in *Interp, fr *frame, args []Value) Value { return nil }
	intrinsics["(*sync.WaitGroup).Done"] = func(in *Interp, fr *frame, args []Value) Value { return nil }
	intrinsics["(*sync.WaitGroup).Wait"] = func(in *Interp, fr *frame, args []Value) Value {
		in.runSpawned()
		return nil
	}

	// sync/atomic functions on plain integer cells
	atomicRMW := func(w int, f func(in *Interp, old, arg Value) Value, ret func(old, nw Value) Value) Intrinsic {
		return func(in *Interp, fr *frame, args []Value) Value {
			p := args[0].(*Value)
			if p == nil {
				in.goPanicf("runtime error: invalid memory address or nil pointer dereference")
			}
			in.guardCheck(p, true)
			in.ghost.atomicOp++
			defer func() { in.ghost.atomicOp-- }()
			old := *p
			var arg Value
			if len(args) > 1 {
				arg = args[1]
			}
			nw := f(in, old, arg)
			in.monStoreCell(p)
			*p = nw
			return ret(old, nw)
		}
	}
	add := func(w int) Intrinsic {
		return atomicRMW(w, func(in *Interp, old, arg Value) Value {
			if o, ok := old.(uint64); ok {
				if a, ok := arg.(uint64); ok {
					return (o + a) & maskW(w)
				}
			}
			return in.simp(in.T.Bin(term.OAdd, in.lift(old, w), in.lift(arg, w)))
		}, func(old, nw Value) Value { return nw })
	}
	load := func(in *Interp, fr *frame, args []Value) Value {
		p := args[0].(*Value)
		if p == nil {
			in.goPanicf("runtime error: invalid memory address or nil pointer dereference")
		}
		return *p
	}
	storeF := atomicRMW(64, func(in *Interp, old, arg Value) Value { return arg }, func(old, nw Value) Value { return nil })
	swap := atomicRMW(64, func(in *Interp, old, arg Value) Value { return arg }, func(old, nw Value) Value { return old })
	for _, t := range []struct {
		n string
		w int
	}{{"Uint64", 64}, {"Int64", 64}, {"Uint32", 32}, {"Int32", 32}, {"Uintptr", 64}} {
		intrinsics["sync/atomic.Add"+t.n] = add(t.w)
		intrinsics["sync/atomic.Load"+t.n] = load
		intrinsics["sync/atomic.Store"+t.n] = storeF
		intrinsics["sync/atomic.Swap"+t.n] = swap
		intrinsics["sync/atomic.CompareAndSwap"+t.n] = func(in *Interp, fr *frame, args []Value) Value {
			p := args[0].(*Value)
			in.ghost.atomicOp++
			defer func() { in.ghost.atomicOp-- }()
			if in.branch(in.equals(*p, args[1]), "cas") {
				in.monStoreCell(p)
				*p = args[2]
				return true
			}
			return false
		}
	}
}

// guardCheck: a cell declared guarded-by a mutex may only be accessed with that mutex held (write mode for
// writes); an atomic access without the lock is a violation as well (mixed disciplines lose updates).
func (in *Interp) guardCheck(p *Value, write bool) {
	mu, ok := in.ghost.guards[p]
	if !ok {
		return
	}
	ms := in.ghost.mutexes[mu]
	held := ms != nil && (ms.locked || ((!write || in.ghost.guardsAny[p]) && ms.readers > 0))
	if !held {
		in.X.assert(false, "guarded-access-without-lock")
	}
}

// release marks the object behind cell (and its interior cells) as returned to a pool.
func (in *Interp) release(cell *Value, where string) {
	cells := map[*Value]bool{}
	// only the object's own storage, not what it points to
	cells[cell] = true
	if s, ok := (*cell).(Struct); ok {
		ownCells(s, cells)
	}
	for c := range cells {
		in.ghost.released[c] = where
	}
}

func ownCells(v Value, cells map[*Value]bool) {
	switch v := v.(type) {
	case Struct:
		for i := range v {
			cells[&v[i]] = true
			ownCells(v[i], cells)
		}
	case Array:
		for i := range v {
			cells[&v[i]] = true
			ownCells(v[i], cells)
		}
	}
}

func (in *Interp) unrelease(cell *Value) {
	if len(in.ghost.released) == 0 {
		return
	}
	cells := map[*Value]bool{cell: true}
	if s, ok := (*cell).(Struct); ok {
		ownCells(s, cells)
	}
	for c := range cells {
		delete(in.ghost.released, c)
	}
}

// pollChan implements "closed at the k-th poll" for modelled channels.
func (in *Interp) pollChan(ch *Chan, fr *frame) {
	if ch.CloseAt < 0 {
		return
	}
	// symbolic cancellation: at every poll the channel may turn out to be closed (once)
	if !ch.Closed {
		name := fmt.Sprintf("cancel#%d", ch.Polls)
		b := in.X.input(name, 0)
		if in.branch(b, name) {
			ch.Closed = true
			in.X.noteInput("cancel.armed", 1)
			w := uint64(0)
			if ch.Counter != nil {
				if u, ok := (*ch.Counter).(uint64); ok {
					w = u
				}
			}
			in.X.noteInput("cancel.writes", w)
			in.X.noteInput("cancel.poll", uint64(ch.Polls))
		}
	}
	ch.Polls++
	if fr != nil {
		site := fr.fn.Name()
		if fr.caller != nil {
			site = fr.caller.fn.Name() + ">" + site
		}
		ch.PollSites = append(ch.PollSites, site)
	}
}
