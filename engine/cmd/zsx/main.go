// Command zsx symbolically executes a harness function of package zap (loaded
// from the repository's current working tree plus overlay harness files) over
// all feasible paths, deciding branches and assertions with SMT solvers.
package main

import (
	"encoding/json"
	"flag"
	"fmt"
	"os"
	"path/filepath"
	"runtime/debug"
	"runtime/pprof"
	"sort"
	"strconv"
	"strings"
	"time"

	"golang.org/x/tools/go/packages"
	"golang.org/x/tools/go/ssa"
	"golang.org/x/tools/go/ssa/ssautil"

	"zsx/interp"
	"zsx/solve"
	"zsx/term"
)

func main() {
	repo := flag.String("repo", "/repo", "repository to load")
	hdir := flag.String("harness-dir", "/verif/harness", "directory with harness files (package zap)")
	harness := flag.String("harness", "", "harness function name")
	tags := flag.String("tags", "", "build tags")
	modfile := flag.String("modfile", "", "alternative go.mod (vectors configuration)")
	out := flag.String("out", "", "result JSON file (default stdout)")
	maxPaths := flag.Int("max-paths", 1<<30, "path budget")
	maxSteps := flag.Int64("max-steps", 50_000_000, "SSA step budget per path")
	wall := flag.Duration("wall", 0, "wall-clock budget")
	qtimeout := flag.Int("query-timeout-ms", 10000, "per-query solver timeout")
	shard := flag.String("shard", "", "i/n: explore only the i-th of n shards")
	shardDepth := flag.Int("shard-depth", 9, "number of leading decisions hashed for sharding")
	second := flag.Bool("second-opinion", false, "cross-check assertion queries on a second solver")
	revMaps := flag.Bool("reverse-maps", false, "iterate maps in reverse insertion order")
	nval := flag.Int("validate", 0, "number of passing paths to export for native validation")
	nsamples := flag.Int("samples", 3, "number of path samples to record")
	fix := flag.String("fix", "", "name=value,... : fix named inputs")
	trace := flag.Bool("trace", false, "trace instructions")
	qlog := flag.String("query-log", "", "log solver queries to file")
	params := flag.String("param", "", "name=value,... : concrete harness parameters (bounds)")
	skipKnown := flag.String("skip-known", "", "comma-separated known-finding ids whose input regions are skipped")
	cpuprof := flag.String("cpuprofile", "", "write a CPU profile of the engine")
	maxViol := flag.Int("max-violations", 1, "stop after this many violations")
	flag.Parse()

	// the interpreter allocates a lot of short-lived boxed values: trade memory for fewer collections
	debug.SetGCPercent(300)
	debug.SetMemoryLimit(1500 << 20)
	if sp := interp.StepProfile(); sp != nil {
		defer func() {
			type kv struct {
				k string
				v int64
			}
			var l []kv
			for k, v := range sp {
				l = append(l, kv{k, v})
			}
			sort.Slice(l, func(i, j int) bool { return l[i].v > l[j].v })
			for i := 0; i < len(l) && i < 25; i++ {
				fmt.Fprintf(os.Stderr, "steps %12d %s\n", l[i].v, l[i].k)
			}
		}()
	}
	if *cpuprof != "" {
		f, _ := os.Create(*cpuprof)
		pprof.StartCPUProfile(f)
		defer pprof.StopCPUProfile()
	}
	if *harness == "" {
		fmt.Fprintln(os.Stderr, "zsx: -harness required")
		os.Exit(2)
	}
	overlay := map[string][]byte{}
	files, _ := filepath.Glob(filepath.Join(*hdir, "*.go"))
	for _, f := range files {
		base := filepath.Base(f)
		if strings.HasSuffix(base, "_test.go") {
			continue
		}
		b, err := os.ReadFile(f)
		if err != nil {
			fatal(err)
		}
		if strings.Contains(string(b), "//zsx:vectors-only") && !strings.Contains(*tags, "vectors") {
			continue
		}
		overlay[filepath.Join(*repo, "zz_verif_"+base)] = b
	}
	var bflags []string
	if *tags != "" {
		bflags = append(bflags, "-tags="+*tags)
	}
	if *modfile != "" {
		bflags = append(bflags, "-modfile="+*modfile)
	}
	cfg := &packages.Config{
		Mode:       packages.LoadAllSyntax,
		Dir:        *repo,
		Overlay:    overlay,
		BuildFlags: bflags,
		Env:        append(os.Environ(), "GOFLAGS=-mod=mod", "GOPROXY=off", "GOSUMDB=off", "GOTOOLCHAIN=local"),
	}
	t0 := time.Now()
	pkgs, err := packages.Load(cfg, ".")
	if err != nil {
		fatal(err)
	}
	if packages.PrintErrors(pkgs) > 0 {
		fmt.Fprintln(os.Stderr, "zsx: the repository (with harness overlay) does not type-check")
		os.Exit(2)
	}
	prog, spkgs := ssautil.AllPackages(pkgs, ssa.InstantiateGenerics)
	main := spkgs[0]
	main.Build()
	loadS := time.Since(t0).Seconds()

	h := main.Func(*harness)
	if h == nil {
		fmt.Fprintf(os.Stderr, "zsx: harness %s not found\n", *harness)
		os.Exit(2)
	}

	st := term.NewStore()
	sv := solve.New(st, *qtimeout)
	sv.Second = *second
	if *qlog != "" {
		f, _ := os.Create(*qlog)
		defer f.Close()
		sv.Log = f
	}
	defer sv.Close()
	in := interp.NewInterp(prog, main, st, sv)
	in.MaxSteps = *maxSteps
	in.Trace = *trace
	x := interp.NewExplorer(in)
	x.MaxPaths = *maxPaths
	x.ReverseMaps = *revMaps
	x.NValidate = *nval
	x.NSamples = *nsamples
	x.MaxViol = *maxViol
	x.ShardDepth = *shardDepth
	if *wall > 0 {
		x.Deadline = time.Now().Add(*wall)
	}
	if *shard != "" {
		p := strings.Split(*shard, "/")
		x.ShardI, _ = strconv.Atoi(p[0])
		x.ShardN, _ = strconv.Atoi(p[1])
	}
	x.Params = map[string]int{}
	if *params != "" {
		for _, kv := range strings.Split(*params, ",") {
			p := strings.SplitN(kv, "=", 2)
			v, _ := strconv.Atoi(p[1])
			x.Params[p[0]] = v
		}
	}
	x.SkipKnown = map[string]bool{}
	for _, k := range strings.Split(*skipKnown, ",") {
		if k != "" {
			x.SkipKnown[k] = true
		}
	}
	if *fix != "" {
		x.Fix = map[string]uint64{}
		for _, kv := range strings.Split(*fix, ",") {
			p := strings.SplitN(kv, "=", 2)
			v, _ := strconv.ParseUint(p[1], 0, 64)
			x.Fix[p[0]] = v
		}
	}
	res := x.Explore(h)
	res.Notes = append(res.Notes, fmt.Sprintf("load+ssa %.1fs", loadS))
	sv.Close()
	js, _ := json.MarshalIndent(res, "", " ")
	if *out != "" {
		if err := os.WriteFile(*out, js, 0644); err != nil {
			fatal(err)
		}
	} else {
		os.Stdout.Write(js)
		fmt.Println()
	}
	fmt.Fprintf(os.Stderr, "zsx: %s paths=%d ok=%d violations=%d incomplete=%d queries=%d solver=%.1fs wall=%.1fs\n",
		*harness, res.Paths, res.PathsOK, len(res.Violations), len(res.Incomplete), res.Queries.Queries, res.Queries.Secs, res.WallS)
}

func fatal(err error) {
	fmt.Fprintln(os.Stderr, "zsx:", err)
	os.Exit(2)
}
