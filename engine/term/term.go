// Package term implements hash-consed SMT terms (Bool and fixed-width
// bit-vectors, plus uninterpreted functions) with constant folding, an
// evaluator and an SMT-LIB2 printer.
package term

import (
	"fmt"
	"math/bits"
	"strings"
)

type Op uint8

const (
	OConst Op = iota // BV or Bool constant (K)
	OVar             // Name
	ONot
	OAnd
	OOr
	OIte // bool or bv
	OEq
	OAdd
	OSub
	OMul
	OUDiv
	OURem
	OSDiv
	OSRem
	OShl
	OLShr
	OAShr
	OBAnd
	OBOr
	OBXor
	OBNot
	ONeg
	OULt
	OULe
	OSLt
	OSLe
	OExtract // K = hi, K2 = lo
	OZExt    // to width W
	OSExt
	OConcat
	OUF // Name(args)
)

var opNames = map[Op]string{
	ONot: "not", OAnd: "and", OOr: "or", OIte: "ite", OEq: "=",
	OAdd: "bvadd", OSub: "bvsub", OMul: "bvmul", OUDiv: "bvudiv", OURem: "bvurem",
	OSDiv: "bvsdiv", OSRem: "bvsrem", OShl: "bvshl", OLShr: "bvlshr", OAShr: "bvashr",
	OBAnd: "bvand", OBOr: "bvor", OBXor: "bvxor", OBNot: "bvnot", ONeg: "bvneg",
	OULt: "bvult", OULe: "bvule", OSLt: "bvslt", OSLe: "bvsle", OConcat: "concat",
}

// Term is an immutable hash-consed node. W == 0 means Bool.
type Term struct {
	Op   Op
	W    int
	Args []*Term
	K    uint64
	K2   int
	Name string
	ID   int
	// HasUF / HasDiv flags are propagated for solver routing.
	HasUF  bool
	HasDiv bool // division/remainder/multiplication by non-constants
}

type Store struct {
	tab   map[string]*Term
	Terms []*Term
	// UFs declared: name -> signature string "(w1 w2) wr"
	UFs map[string][]int
}

func NewStore() *Store {
	return &Store{tab: map[string]*Term{}, UFs: map[string][]int{}}
}

func mask(w int) uint64 {
	if w >= 64 {
		return ^uint64(0)
	}
	return (uint64(1) << uint(w)) - 1
}

func sext(v uint64, w int) int64 {
	if w >= 64 {
		return int64(v)
	}
	sh := uint(64 - w)
	return int64(v<<sh) >> sh
}

func (s *Store) mk(op Op, w int, k uint64, k2 int, name string, args ...*Term) *Term {
	var sb strings.Builder
	fmt.Fprintf(&sb, "%d/%d/%d/%d/%s", op, w, k, k2, name)
	for _, a := range args {
		fmt.Fprintf(&sb, "/%d", a.ID)
	}
	key := sb.String()
	if t, ok := s.tab[key]; ok {
		return t
	}
	t := &Term{Op: op, W: w, K: k, K2: k2, Name: name, ID: len(s.Terms)}
	if len(args) > 0 {
		t.Args = append([]*Term(nil), args...)
	}
	for _, a := range args {
		t.HasUF = t.HasUF || a.HasUF
		t.HasDiv = t.HasDiv || a.HasDiv
	}
	if op == OUF {
		t.HasUF = true
	}
	switch op {
	case OUDiv, OURem, OSDiv, OSRem:
		t.HasDiv = true
	case OMul:
		if !args[0].IsConst() && !args[1].IsConst() {
			t.HasDiv = true
		}
	}
	s.tab[key] = t
	s.Terms = append(s.Terms, t)
	return t
}

func (t *Term) IsConst() bool { return t.Op == OConst }
func (t *Term) IsBool() bool  { return t.W == 0 }
func (t *Term) IsTrue() bool  { return t.Op == OConst && t.W == 0 && t.K == 1 }
func (t *Term) IsFalse() bool { return t.Op == OConst && t.W == 0 && t.K == 0 }

func (s *Store) BV(w int, v uint64) *Term { return s.mk(OConst, w, v&mask(w), 0, "") }
func (s *Store) Bool(b bool) *Term {
	if b {
		return s.mk(OConst, 0, 1, 0, "")
	}
	return s.mk(OConst, 0, 0, 0, "")
}
func (s *Store) Var(name string, w int) *Term { return s.mk(OVar, w, 0, 0, name) }

func (s *Store) Not(a *Term) *Term {
	if a.IsConst() {
		return s.Bool(a.K == 0)
	}
	if a.Op == ONot {
		return a.Args[0]
	}
	return s.mk(ONot, 0, 0, 0, "", a)
}

func (s *Store) And(a, b *Term) *Term {
	if a.IsConst() {
		if a.K == 0 {
			return a
		}
		return b
	}
	if b.IsConst() {
		if b.K == 0 {
			return b
		}
		return a
	}
	if a == b {
		return a
	}
	if a.ID > b.ID {
		a, b = b, a
	}
	return s.mk(OAnd, 0, 0, 0, "", a, b)
}

func (s *Store) Or(a, b *Term) *Term {
	if a.IsConst() {
		if a.K == 1 {
			return a
		}
		return b
	}
	if b.IsConst() {
		if b.K == 1 {
			return b
		}
		return a
	}
	if a == b {
		return a
	}
	if a.ID > b.ID {
		a, b = b, a
	}
	return s.mk(OOr, 0, 0, 0, "", a, b)
}

func (s *Store) Ite(c, a, b *Term) *Term {
	if c.IsConst() {
		if c.K == 1 {
			return a
		}
		return b
	}
	if a == b {
		return a
	}
	if a.W == 0 && a.IsConst() && b.IsConst() {
		if a.K == 1 && b.K == 0 {
			return c
		}
		if a.K == 0 && b.K == 1 {
			return s.Not(c)
		}
	}
	return s.mk(OIte, a.W, 0, 0, "", c, a, b)
}

func (s *Store) Eq(a, b *Term) *Term {
	if a.W != b.W {
		panic(fmt.Sprintf("term.Eq width mismatch %d vs %d", a.W, b.W))
	}
	if a == b {
		return s.Bool(true)
	}
	if a.IsConst() && b.IsConst() {
		return s.Bool(a.K == b.K)
	}
	if a.W == 0 {
		if a.IsConst() {
			a, b = b, a
		}
		if b.IsConst() {
			if b.K == 1 {
				return a
			}
			return s.Not(a)
		}
	}
	if a.ID > b.ID {
		a, b = b, a
	}
	return s.mk(OEq, 0, 0, 0, "", a, b)
}

// Bin builds a binary bit-vector operation with constant folding.
func (s *Store) Bin(op Op, a, b *Term) *Term {
	if a.W != b.W {
		panic(fmt.Sprintf("term.Bin %s width mismatch %d vs %d", opNames[op], a.W, b.W))
	}
	w := a.W
	if a.IsConst() && b.IsConst() {
		if v, ok := foldBin(op, w, a.K, b.K); ok {
			return s.BV(w, v)
		}
	}
	// light identities
	switch op {
	case OAdd, OBOr, OBXor:
		if a.IsConst() && a.K == 0 {
			return b
		}
		if b.IsConst() && b.K == 0 {
			return a
		}
	case OSub, OShl, OLShr, OAShr:
		if b.IsConst() && b.K == 0 {
			return a
		}
	case OBAnd:
		if a.IsConst() && a.K == 0 {
			return a
		}
		if b.IsConst() && b.K == 0 {
			return b
		}
		if a.IsConst() && a.K == mask(w) {
			return b
		}
		if b.IsConst() && b.K == mask(w) {
			return a
		}
	case OMul:
		if a.IsConst() && a.K == 1 {
			return b
		}
		if b.IsConst() && b.K == 1 {
			return a
		}
		if (a.IsConst() && a.K == 0) || (b.IsConst() && b.K == 0) {
			return s.BV(w, 0)
		}
	case OUDiv:
		if b.IsConst() && b.K == 1 {
			return a
		}
		if a.IsConst() && a.K <= 16 && !b.IsConst() {
			// c / x for a small constant c, without a division: the number of k in 1..c with x <= c/k
			// (x == 0 keeps the SMT-LIB value, all ones)
			sum := s.BV(w, 0)
			for k := uint64(1); k <= a.K; k++ {
				sum = s.Bin(OAdd, sum, s.Ite(s.Cmp(OULe, b, s.BV(w, a.K/k)), s.BV(w, 1), s.BV(w, 0)))
			}
			return s.Ite(s.Eq(b, s.BV(w, 0)), s.BV(w, mask(w)), sum)
		}
	}
	switch op {
	case OBAnd:
		// x & (2^k - 1) is a zero-extended low slice
		for i := 0; i < 2; i++ {
			if b.IsConst() && b.K != 0 && b.K&(b.K+1) == 0 {
				k := bitsLen(b.K)
				return s.ZExt(s.Extract(a, k-1, 0), w)
			}
			a, b = b, a
		}
	case OBOr:
		if t := s.mergeSlices(a, b, w); t != nil {
			return t
		}
	case OAdd:
		// disjoint slices add like they or
		if sa, ok := asSlice(a); ok {
			if sb, ok := asSlice(b); ok && sa.base == sb.base && (sa.shift+sa.width <= sb.shift || sb.shift+sb.width <= sa.shift) {
				if t := s.mergeSlices(a, b, w); t != nil {
					return t
				}
			}
		}
	}
	switch op {
	case OAdd, OMul, OBAnd, OBOr, OBXor:
		if a.ID > b.ID {
			a, b = b, a
		}
	}
	return s.mk(op, w, 0, 0, "", a, b)
}

func bitsLen(x uint64) int { return bits.Len64(x) }

// bitSlice describes a term of the form zext(extract[lo+width-1:lo](base)) << shift.
type bitSlice struct {
	base             *Term
	lo, width, shift int
}

func asSlice(t *Term) (bitSlice, bool) {
	shift := 0
	if t.Op == OShl && t.Args[1].IsConst() {
		shift = int(t.Args[1].K)
		t = t.Args[0]
	}
	if t.Op == OZExt {
		t = t.Args[0]
	}
	switch t.Op {
	case OExtract:
		return bitSlice{t.Args[0], t.K2, t.W, shift}, true
	case OVar, OUF:
		return bitSlice{t, 0, t.W, shift}, true
	}
	return bitSlice{}, false
}

func (s *Store) sliceTerm(b bitSlice, w int) *Term {
	t := s.ZExt(s.Extract(b.base, b.lo+b.width-1, b.lo), w)
	if b.shift > 0 {
		t = s.Bin(OShl, t, s.BV(w, uint64(b.shift)))
	}
	return t
}

// mergeSlices joins two adjacent bit slices of the same base term (a | b).
func (s *Store) mergeSlices(a, b *Term, w int) *Term {
	sa, ok := asSlice(a)
	if !ok {
		return nil
	}
	sb, ok := asSlice(b)
	if !ok || sa.base != sb.base {
		return nil
	}
	if sa.shift > sb.shift {
		sa, sb = sb, sa
	}
	// sa is the lower slice; adjacent in the result and in the base
	if sa.shift+sa.width != sb.shift || sa.lo+sa.width != sb.lo {
		return nil
	}
	if sb.shift+sb.width > w {
		return nil
	}
	return s.sliceTerm(bitSlice{sa.base, sa.lo, sa.width + sb.width, sa.shift}, w)
}

func foldBin(op Op, w int, x, y uint64) (uint64, bool) {
	m := mask(w)
	switch op {
	case OAdd:
		return (x + y) & m, true
	case OSub:
		return (x - y) & m, true
	case OMul:
		return (x * y) & m, true
	case OUDiv:
		if y == 0 {
			return m, true
		}
		return x / y, true
	case OURem:
		if y == 0 {
			return x, true
		}
		return x % y, true
	case OSDiv:
		sx, sy := sext(x, w), sext(y, w)
		if sy == 0 {
			if sx < 0 {
				return 1, true
			}
			return m, true
		}
		if sy == -1 {
			return uint64(-sx) & m, true
		}
		return uint64(sx/sy) & m, true
	case OSRem:
		sx, sy := sext(x, w), sext(y, w)
		if sy == 0 {
			return x, true
		}
		if sy == -1 {
			return 0, true
		}
		return uint64(sx%sy) & m, true
	case OShl:
		if y >= uint64(w) {
			return 0, true
		}
		return (x << y) & m, true
	case OLShr:
		if y >= uint64(w) {
			return 0, true
		}
		return x >> y, true
	case OAShr:
		sx := sext(x, w)
		if y >= uint64(w) {
			y = uint64(w - 1)
			if w == 64 {
				y = 63
			}
		}
		return uint64(sx>>y) & m, true
	case OBAnd:
		return x & y, true
	case OBOr:
		return x | y, true
	case OBXor:
		return x ^ y, true
	}
	return 0, false
}

func (s *Store) Cmp(op Op, a, b *Term) *Term {
	if a.W != b.W {
		panic(fmt.Sprintf("term.Cmp width mismatch %d vs %d", a.W, b.W))
	}
	if a.IsConst() && b.IsConst() {
		return s.Bool(foldCmp(op, a.W, a.K, b.K))
	}
	if a == b {
		return s.Bool(op == OULe || op == OSLe)
	}
	return s.mk(op, 0, 0, 0, "", a, b)
}

func foldCmp(op Op, w int, x, y uint64) bool {
	switch op {
	case OULt:
		return x < y
	case OULe:
		return x <= y
	case OSLt:
		return sext(x, w) < sext(y, w)
	case OSLe:
		return sext(x, w) <= sext(y, w)
	}
	panic("foldCmp")
}

func (s *Store) BNot(a *Term) *Term {
	if a.IsConst() {
		return s.BV(a.W, ^a.K)
	}
	return s.mk(OBNot, a.W, 0, 0, "", a)
}
func (s *Store) Neg(a *Term) *Term {
	if a.IsConst() {
		return s.BV(a.W, -a.K)
	}
	return s.mk(ONeg, a.W, 0, 0, "", a)
}

func (s *Store) Extract(a *Term, hi, lo int) *Term {
	w := hi - lo + 1
	if lo == 0 && w == a.W {
		return a
	}
	if a.IsConst() {
		return s.BV(w, a.K>>uint(lo))
	}
	if a.Op == OZExt && hi < a.Args[0].W {
		return s.Extract(a.Args[0], hi, lo)
	}
	if a.Op == OZExt && lo >= a.Args[0].W {
		return s.BV(w, 0)
	}
	if a.Op == OExtract {
		return s.Extract(a.Args[0], hi+a.K2, lo+a.K2)
	}
	if a.Op == OLShr && a.Args[1].IsConst() {
		k := int(a.Args[1].K)
		if hi+k < a.W {
			return s.Extract(a.Args[0], hi+k, lo+k)
		}
		if lo+k >= a.W {
			return s.BV(w, 0)
		}
	}
	if a.Op == OShl && a.Args[1].IsConst() {
		k := int(a.Args[1].K)
		if lo >= k {
			return s.Extract(a.Args[0], hi-k, lo-k)
		}
		if hi < k {
			return s.BV(w, 0)
		}
	}
	if a.Op == OBOr || a.Op == OBAnd || a.Op == OBXor {
		// bitwise operators commute with extraction
		return s.Bin(a.Op, s.Extract(a.Args[0], hi, lo), s.Extract(a.Args[1], hi, lo))
	}
	if a.Op == OConcat {
		lw := a.Args[1].W
		if hi < lw {
			return s.Extract(a.Args[1], hi, lo)
		}
		if lo >= lw {
			return s.Extract(a.Args[0], hi-lw, lo-lw)
		}
	}
	return s.mk(OExtract, w, uint64(hi), lo, "", a)
}

func (s *Store) ZExt(a *Term, w int) *Term {
	if w == a.W {
		return a
	}
	if w < a.W {
		return s.Extract(a, w-1, 0)
	}
	if a.IsConst() {
		return s.BV(w, a.K)
	}
	if a.Op == OZExt {
		return s.ZExt(a.Args[0], w)
	}
	return s.mk(OZExt, w, 0, 0, "", a)
}

func (s *Store) SExt(a *Term, w int) *Term {
	if w == a.W {
		return a
	}
	if w < a.W {
		return s.Extract(a, w-1, 0)
	}
	if a.IsConst() {
		return s.BV(w, uint64(sext(a.K, a.W)))
	}
	return s.mk(OSExt, w, 0, 0, "", a)
}

func (s *Store) Concat(hi, lo *Term) *Term {
	w := hi.W + lo.W
	if hi.IsConst() && lo.IsConst() && w <= 64 {
		return s.BV(w, hi.K<<uint(lo.W)|lo.K)
	}
	return s.mk(OConcat, w, 0, 0, "", hi, lo)
}

// UF applies an uninterpreted function of the given result width.
func (s *Store) UF(name string, w int, args ...*Term) *Term {
	if _, ok := s.UFs[name]; !ok {
		sig := []int{}
		for _, a := range args {
			sig = append(sig, a.W)
		}
		sig = append(sig, w)
		s.UFs[name] = sig
	}
	return s.mk(OUF, w, 0, 0, name, args...)
}

// Model assigns values to variables. Missing variables evaluate to 0.
type Model map[string]uint64

// Eval evaluates t under m. ok is false when t contains an uninterpreted
// function application.
func Eval(t *Term, m Model) (v uint64, ok bool) {
	memo := map[int]uint64{}
	var ev func(t *Term) uint64
	fail := false
	ev = func(t *Term) uint64 {
		if r, ok := memo[t.ID]; ok {
			return r
		}
		var r uint64
		switch t.Op {
		case OConst:
			r = t.K
		case OVar:
			r = m[t.Name] & mask64(t.W)
		case ONot:
			r = 1 - ev(t.Args[0])
		case OAnd:
			r = ev(t.Args[0]) & ev(t.Args[1])
		case OOr:
			r = ev(t.Args[0]) | ev(t.Args[1])
		case OIte:
			if ev(t.Args[0]) == 1 {
				r = ev(t.Args[1])
			} else {
				r = ev(t.Args[2])
			}
		case OEq:
			if ev(t.Args[0]) == ev(t.Args[1]) {
				r = 1
			}
		case OULt, OULe, OSLt, OSLe:
			if foldCmp(t.Op, t.Args[0].W, ev(t.Args[0]), ev(t.Args[1])) {
				r = 1
			}
		case OBNot:
			r = ^ev(t.Args[0]) & mask(t.W)
		case ONeg:
			r = -ev(t.Args[0]) & mask(t.W)
		case OExtract:
			r = (ev(t.Args[0]) >> uint(t.K2)) & mask(t.W)
		case OZExt:
			r = ev(t.Args[0])
		case OSExt:
			r = uint64(sext(ev(t.Args[0]), t.Args[0].W)) & mask(t.W)
		case OConcat:
			if t.W > 64 {
				fail = true
				return 0
			}
			r = ev(t.Args[0])<<uint(t.Args[1].W) | ev(t.Args[1])
		case OUF:
			fail = true
			return 0
		default:
			x, y := ev(t.Args[0]), ev(t.Args[1])
			var ok bool
			r, ok = foldBin(t.Op, t.W, x, y)
			if !ok {
				panic("Eval: op " + opNames[t.Op])
			}
		}
		memo[t.ID] = r
		return r
	}
	v = ev(t)
	return v, !fail
}

func mask64(w int) uint64 {
	if w == 0 {
		return 1
	}
	return mask(w)
}

// Vars collects the variable names of t.
func Vars(t *Term, seen map[int]bool, out map[string]int) {
	if seen[t.ID] {
		return
	}
	seen[t.ID] = true
	if t.Op == OVar {
		out[t.Name] = t.W
	}
	for _, a := range t.Args {
		Vars(a, seen, out)
	}
}

func sortStr(w int) string {
	if w == 0 {
		return "Bool"
	}
	return fmt.Sprintf("(_ BitVec %d)", w)
}

// SMTName returns the symbol under which t is referred to in SMT-LIB text.
func (t *Term) SMTName() string {
	switch t.Op {
	case OConst:
		if t.W == 0 {
			if t.K == 1 {
				return "true"
			}
			return "false"
		}
		if t.W%4 == 0 {
			return fmt.Sprintf("#x%0*x", t.W/4, t.K)
		}
		return fmt.Sprintf("#b%0*b", t.W, t.K)
	case OVar:
		return "|" + t.Name + "|"
	}
	return fmt.Sprintf("t%d", t.ID)
}

// Def returns the SMT-LIB command that introduces t (declare-const for
// variables, define-fun for inner nodes, "" for constants).
func (t *Term) Def() string {
	switch t.Op {
	case OConst:
		return ""
	case OVar:
		return fmt.Sprintf("(declare-const |%s| %s)", t.Name, sortStr(t.W))
	}
	var body string
	an := func(i int) string { return t.Args[i].SMTName() }
	switch t.Op {
	case OExtract:
		body = fmt.Sprintf("((_ extract %d %d) %s)", t.K, t.K2, an(0))
	case OZExt:
		body = fmt.Sprintf("((_ zero_extend %d) %s)", t.W-t.Args[0].W, an(0))
	case OSExt:
		body = fmt.Sprintf("((_ sign_extend %d) %s)", t.W-t.Args[0].W, an(0))
	case OUF:
		var sb strings.Builder
		sb.WriteString("(|" + t.Name + "|")
		for i := range t.Args {
			sb.WriteString(" " + an(i))
		}
		sb.WriteString(")")
		body = sb.String()
	default:
		var sb strings.Builder
		sb.WriteString("(" + opNames[t.Op])
		for i := range t.Args {
			sb.WriteString(" " + an(i))
		}
		sb.WriteString(")")
		body = sb.String()
	}
	return fmt.Sprintf("(define-fun t%d () %s %s)", t.ID, sortStr(t.W), body)
}

func UFDecl(name string, sig []int) string {
	var sb strings.Builder
	fmt.Fprintf(&sb, "(declare-fun |%s| (", name)
	for i, w := range sig[:len(sig)-1] {
		if i > 0 {
			sb.WriteString(" ")
		}
		sb.WriteString(sortStr(w))
	}
	fmt.Fprintf(&sb, ") %s)", sortStr(sig[len(sig)-1]))
	return sb.String()
}

// String renders a term compactly for reports.
func (t *Term) String() string {
	var sb strings.Builder
	var pr func(t *Term, d int)
	pr = func(t *Term, d int) {
		switch t.Op {
		case OConst:
			if t.W == 0 {
				sb.WriteString(fmt.Sprint(t.K == 1))
			} else {
				fmt.Fprintf(&sb, "%d", t.K)
			}
		case OVar:
			sb.WriteString(t.Name)
		default:
			if d > 6 {
				sb.WriteString("…")
				return
			}
			switch t.Op {
			case OExtract:
				fmt.Fprintf(&sb, "(extract[%d:%d] ", t.K, t.K2)
			case OZExt:
				fmt.Fprintf(&sb, "(zext%d ", t.W)
			case OSExt:
				fmt.Fprintf(&sb, "(sext%d ", t.W)
			case OUF:
				sb.WriteString("(" + t.Name + " ")
			default:
				sb.WriteString("(" + opNames[t.Op] + " ")
			}
			for i, a := range t.Args {
				if i > 0 {
					sb.WriteString(" ")
				}
				pr(a, d+1)
			}
			sb.WriteString(")")
		}
	}
	pr(t, 0)
	return sb.String()
}

var _ = bits.Len
