package term

import "math/bits"

// Unsigned interval abstraction used as a cheap infeasibility filter: it only
// ever proves that a condition is definitely true or definitely false under an
// over-approximation of the path condition; everything else goes to the solver.

type Range struct{ Lo, Hi uint64 }

type RangeEnv struct {
	kz   map[int]uint64
	vars map[string]Range
	over map[int]Range // refinements recorded for compound terms
	memo map[int]Range
	tri  map[int]int8
}

func NewRangeEnv() *RangeEnv {
	return &RangeEnv{vars: map[string]Range{}, over: map[int]Range{}, memo: map[int]Range{}, tri: map[int]int8{}}
}

func (e *RangeEnv) invalidate() {
	e.kz = map[int]uint64{}
	e.memo = map[int]Range{}
	e.tri = map[int]int8{}
}

func full(w int) Range {
	if w == 0 {
		return Range{0, 1}
	}
	return Range{0, mask(w)}
}

func meet(a, b Range) Range {
	if b.Lo > a.Lo {
		a.Lo = b.Lo
	}
	if b.Hi < a.Hi {
		a.Hi = b.Hi
	}
	return a
}

func (e *RangeEnv) refine(t *Term, r Range) {
	if t.Op == OZExt {
		e.refine(t.Args[0], r)
		return
	}
	if t.Op == OVar {
		cur, ok := e.vars[t.Name]
		if !ok {
			cur = full(t.W)
		}
		e.vars[t.Name] = meet(cur, r)
	} else if t.Op != OConst {
		cur, ok := e.over[t.ID]
		if !ok {
			cur = full(t.W)
		}
		e.over[t.ID] = meet(cur, r)
	}
	e.invalidate()
}

// Assume records what a path-condition conjunct says about ranges.
func (e *RangeEnv) Assume(p *Term) { e.assume(p, true) }

func (e *RangeEnv) assume(p *Term, pos bool) {
	if p.Op != OConst && p.Op != OVar && p.Op != ONot {
		v := uint64(0)
		if pos {
			v = 1
		}
		e.over[p.ID] = Range{v, v}
		e.invalidate()
	}
	switch p.Op {
	case ONot:
		e.assume(p.Args[0], !pos)
	case OAnd:
		if pos {
			e.assume(p.Args[0], true)
			e.assume(p.Args[1], true)
		}
	case OOr:
		if !pos {
			e.assume(p.Args[0], false)
			e.assume(p.Args[1], false)
		}
	case OVar:
		if p.W == 0 {
			if pos {
				e.refine(p, Range{1, 1})
			} else {
				e.refine(p, Range{0, 0})
			}
		}
	case OEq:
		a, b := p.Args[0], p.Args[1]
		if a.IsConst() {
			a, b = b, a
		}
		if b.IsConst() && pos {
			e.refine(a, Range{b.K, b.K})
		} else if b.IsConst() && !pos && a.W == 0 {
			e.refine(a, Range{1 - b.K, 1 - b.K})
		} else if b.IsConst() && !pos {
			// a != c: shave the bound if c is an end point
			r := e.Of(a)
			if r.Lo == b.K && r.Lo < r.Hi {
				e.refine(a, Range{r.Lo + 1, r.Hi})
			} else if r.Hi == b.K && r.Lo < r.Hi {
				e.refine(a, Range{r.Lo, r.Hi - 1})
			}
		}
	case OULt, OULe:
		a, b := p.Args[0], p.Args[1]
		strict := p.Op == OULt
		if !pos {
			// not (a < b) == b <= a ; not (a <= b) == b < a
			a, b = b, a
			strict = !strict
		}
		// now: a < b (strict) or a <= b
		rb := e.Of(b)
		ra := e.Of(a)
		m := mask(a.W)
		if strict {
			if rb.Hi > 0 {
				e.refine(a, Range{0, rb.Hi - 1})
			}
			if ra.Lo < m {
				e.refine(b, Range{ra.Lo + 1, m})
			}
		} else {
			e.refine(a, Range{0, rb.Hi})
			e.refine(b, Range{ra.Lo, m})
		}
	}
}

// Of returns an over-approximating unsigned range of t.
func (e *RangeEnv) Of(t *Term) Range {
	if r, ok := e.memo[t.ID]; ok {
		return r
	}
	r := e.of(t)
	if o, ok := e.over[t.ID]; ok {
		r = meet(r, o)
	}
	if t.W > 0 && t.W <= 64 {
		// tighten by known-zero bits
		if mx := ^e.KZ(t) & mask(t.W); mx < r.Hi {
			r.Hi = mx
		}
	}
	if r.Lo > r.Hi { // contradictory refinements: path is infeasible anyway; stay sound
		r = full(t.W)
	}
	e.memo[t.ID] = r
	return r
}

func (e *RangeEnv) of(t *Term) Range {
	w := t.W
	f := full(w)
	switch t.Op {
	case OConst:
		return Range{t.K, t.K}
	case OVar:
		if r, ok := e.vars[t.Name]; ok {
			return r
		}
		return f
	case OZExt:
		return e.Of(t.Args[0])
	case OExtract:
		a := e.Of(t.Args[0])
		if t.K2 == 0 {
			if a.Hi <= mask(w) {
				return a
			}
			return f
		}
		// bits [hi:lo] of a value below 2^lo are zero
		if t.K2 < 64 && a.Hi < (uint64(1)<<uint(t.K2)) {
			return Range{0, 0}
		}
		sh := Range{a.Lo >> uint(t.K2), a.Hi >> uint(t.K2)}
		if sh.Hi <= mask(w) {
			return sh
		}
		return f
	case OAdd:
		a, b := e.Of(t.Args[0]), e.Of(t.Args[1])
		hi, c := bits.Add64(a.Hi, b.Hi, 0)
		if c == 0 && hi <= mask(w) {
			return Range{a.Lo + b.Lo, hi}
		}
		return f
	case OSub:
		a, b := e.Of(t.Args[0]), e.Of(t.Args[1])
		if a.Lo >= b.Hi {
			return Range{a.Lo - b.Hi, a.Hi - b.Lo}
		}
		return f
	case OMul:
		a, b := e.Of(t.Args[0]), e.Of(t.Args[1])
		h, l := bits.Mul64(a.Hi, b.Hi)
		if h == 0 && l <= mask(w) {
			return Range{a.Lo * b.Lo, l}
		}
		return f
	case OUDiv:
		a, b := e.Of(t.Args[0]), e.Of(t.Args[1])
		if b.Lo > 0 {
			return Range{a.Lo / b.Hi, a.Hi / b.Lo}
		}
		return f
	case OURem:
		a, b := e.Of(t.Args[0]), e.Of(t.Args[1])
		if b.Lo > 0 {
			hi := b.Hi - 1
			if a.Hi < hi {
				hi = a.Hi
			}
			return Range{0, hi}
		}
		return Range{0, a.Hi}
	case OShl:
		a, b := e.Of(t.Args[0]), e.Of(t.Args[1])
		if b.Lo == b.Hi && b.Lo < 64 {
			if bits.Len64(a.Hi)+int(b.Lo) <= w {
				return Range{a.Lo << b.Lo, a.Hi << b.Lo}
			}
		}
		return f
	case OLShr:
		a, b := e.Of(t.Args[0]), e.Of(t.Args[1])
		if b.Lo == b.Hi {
			if b.Lo >= uint64(w) {
				return Range{0, 0}
			}
			return Range{a.Lo >> b.Lo, a.Hi >> b.Lo}
		}
		return Range{0, a.Hi}
	case OBAnd:
		a, b := e.Of(t.Args[0]), e.Of(t.Args[1])
		hi := a.Hi
		if b.Hi < hi {
			hi = b.Hi
		}
		return Range{0, hi}
	case OBOr:
		a, b := e.Of(t.Args[0]), e.Of(t.Args[1])
		lo := a.Lo
		if b.Lo > lo {
			lo = b.Lo
		}
		n := bits.Len64(a.Hi | b.Hi)
		hi := mask(n)
		if n == 0 {
			hi = 0
		}
		return Range{lo, hi}
	case OBXor:
		a, b := e.Of(t.Args[0]), e.Of(t.Args[1])
		n := bits.Len64(a.Hi | b.Hi)
		if n == 0 {
			return Range{0, 0}
		}
		return Range{0, mask(n)}
	case OIte:
		switch e.Tri(t.Args[0]) {
		case 1:
			return e.Of(t.Args[1])
		case 0:
			return e.Of(t.Args[2])
		}
		a, b := e.Of(t.Args[1]), e.Of(t.Args[2])
		if b.Lo < a.Lo {
			a.Lo = b.Lo
		}
		if b.Hi > a.Hi {
			a.Hi = b.Hi
		}
		return a
	case OConcat:
		if w <= 64 {
			a, b := e.Of(t.Args[0]), e.Of(t.Args[1])
			lw := uint(t.Args[1].W)
			return Range{a.Lo<<lw | b.Lo, a.Hi<<lw | b.Hi}
		}
		return f
	}
	if w == 0 {
		switch e.Tri(t) {
		case 1:
			return Range{1, 1}
		case 0:
			return Range{0, 0}
		}
		return Range{0, 1}
	}
	return f
}

// Tri evaluates a Bool term: 1 definitely true, 0 definitely false, -1 unknown.
func (e *RangeEnv) Tri(t *Term) int {
	if v, ok := e.tri[t.ID]; ok {
		return int(v)
	}
	r := e.triOf(t)
	if o, ok := e.over[t.ID]; ok && t.W == 0 && o.Lo == o.Hi {
		r = int(o.Lo)
	}
	e.tri[t.ID] = int8(r)
	return r
}

func (e *RangeEnv) triOf(t *Term) int {
	switch t.Op {
	case OConst:
		return int(t.K)
	case OVar:
		if r, ok := e.vars[t.Name]; ok && r.Lo == r.Hi {
			return int(r.Lo)
		}
		return -1
	case ONot:
		v := e.Tri(t.Args[0])
		if v < 0 {
			return -1
		}
		return 1 - v
	case OAnd:
		a, b := e.Tri(t.Args[0]), e.Tri(t.Args[1])
		if a == 0 || b == 0 {
			return 0
		}
		if a == 1 && b == 1 {
			return 1
		}
		return -1
	case OOr:
		a, b := e.Tri(t.Args[0]), e.Tri(t.Args[1])
		if a == 1 || b == 1 {
			return 1
		}
		if a == 0 && b == 0 {
			return 0
		}
		return -1
	case OIte:
		switch e.Tri(t.Args[0]) {
		case 1:
			return e.Tri(t.Args[1])
		case 0:
			return e.Tri(t.Args[2])
		}
		a, b := e.Tri(t.Args[1]), e.Tri(t.Args[2])
		if a == b {
			return a
		}
		return -1
	case OEq:
		if t.Args[0].W == 0 {
			a, b := e.Tri(t.Args[0]), e.Tri(t.Args[1])
			if a < 0 || b < 0 {
				return -1
			}
			if a == b {
				return 1
			}
			return 0
		}
		a, b := e.Of(t.Args[0]), e.Of(t.Args[1])
		if a.Hi < b.Lo || b.Hi < a.Lo {
			return 0
		}
		if a.Lo == a.Hi && b.Lo == b.Hi && a.Lo == b.Lo {
			return 1
		}
		return -1
	case OULt:
		a, b := e.Of(t.Args[0]), e.Of(t.Args[1])
		if a.Hi < b.Lo {
			return 1
		}
		if a.Lo >= b.Hi {
			return 0
		}
		return -1
	case OULe:
		a, b := e.Of(t.Args[0]), e.Of(t.Args[1])
		if a.Hi <= b.Lo {
			return 1
		}
		if a.Lo > b.Hi {
			return 0
		}
		return -1
	case OSLt, OSLe:
		a, b := e.Of(t.Args[0]), e.Of(t.Args[1])
		w := t.Args[0].W
		top := uint64(1) << uint(w-1)
		if a.Hi < top && b.Hi < top {
			// both non-negative: same as unsigned
			if t.Op == OSLt {
				if a.Hi < b.Lo {
					return 1
				}
				if a.Lo >= b.Hi {
					return 0
				}
			} else {
				if a.Hi <= b.Lo {
					return 1
				}
				if a.Lo > b.Hi {
					return 0
				}
			}
		}
		return -1
	}
	return -1
}

// KZ returns a mask of bits of t that are definitely zero (within its width).
func (e *RangeEnv) KZ(t *Term) uint64 {
	if t.W == 0 || t.W > 64 {
		return 0
	}
	if e.kz == nil {
		e.kz = map[int]uint64{}
	}
	if v, ok := e.kz[t.ID]; ok {
		return v
	}
	e.kz[t.ID] = 0 // cycle guard (terms are DAGs; this is only a recursion guard with Of)
	m := mask(t.W)
	var kz uint64
	switch t.Op {
	case OConst:
		kz = ^t.K & m
	case OVar:
		if r, ok := e.vars[t.Name]; ok {
			kz = ^mask(bits.Len64(r.Hi)) & m
		}
	case OZExt:
		kz = e.KZ(t.Args[0]) | (^mask(t.Args[0].W) & m)
	case OExtract:
		a := t.Args[0]
		if a.W <= 64 {
			kz = (e.KZ(a) >> uint(t.K2)) & m
		}
	case OShl:
		if b := t.Args[1]; b.IsConst() && b.K < 64 {
			kz = ((e.KZ(t.Args[0]) << b.K) | mask(int(b.K))) & m
		}
	case OLShr:
		if b := t.Args[1]; b.IsConst() && b.K < 64 {
			kz = ((e.KZ(t.Args[0]) >> b.K) | ^(m >> b.K)) & m
		}
	case OBAnd:
		kz = (e.KZ(t.Args[0]) | e.KZ(t.Args[1])) & m
	case OBOr, OBXor:
		kz = e.KZ(t.Args[0]) & e.KZ(t.Args[1]) & m
	case OIte:
		kz = e.KZ(t.Args[1]) & e.KZ(t.Args[2]) & m
	case OConcat:
		if t.W <= 64 {
			kz = (e.KZ(t.Args[0])<<uint(t.Args[1].W) | e.KZ(t.Args[1])) & m
		}
	}
	if o, ok := e.over[t.ID]; ok {
		kz |= ^mask(bits.Len64(o.Hi)) & m
	}
	e.kz[t.ID] = kz
	return kz
}
