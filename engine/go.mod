module zsx

go 1.23

require (
	github.com/RoaringBitmap/roaring/v2 v2.4.5
	github.com/blevesearch/mmap-go v1.0.4
	github.com/blevesearch/vellum v1.1.0
	github.com/golang/snappy v0.0.4
	golang.org/x/tools v0.29.0
)

require (
	github.com/bits-and-blooms/bitset v1.22.0
	github.com/mschoch/smat v0.2.0
	golang.org/x/mod v0.22.0
	golang.org/x/sync v0.10.0
	golang.org/x/sys v0.29.0
)

require github.com/blevesearch/go-faiss v1.0.25

replace github.com/blevesearch/go-faiss => ../fakes/go-faiss
