// Package solve drives persistent SMT solver processes (z3, z3-new, cvc5,
// cvc5 with the bit-vector-to-integer translation) over SMT-LIB2 text. Every
// back end mirrors the same assertion stack lazily; queries are routed by the
// shape of the terms and fall back to the other back ends on unknown.
package solve

import (
	"bufio"
	"fmt"
	"io"
	"os"
	"os/exec"
	"sort"
	"strconv"
	"strings"
	"time"

	"zsx/term"
)

type Result int

const (
	Unknown Result = iota
	Sat
	Unsat
)

func (r Result) String() string { return [...]string{"unknown", "sat", "unsat"}[r] }

type backend struct {
	name       string
	cmd        *exec.Cmd
	in         io.WriteCloser
	out        *bufio.Reader
	defined    map[int]bool
	ufs        map[string]bool
	stack      []*term.Term
	dead       bool
	sinceStart int
	queries    int
	secs       float64
	sat        int
	unsat      int
	unknown    int
	errors     int
}

type Solver struct {
	Store     *term.Store
	TimeoutMs int
	backends  map[string]*backend
	Stack     []*term.Term
	Log       io.Writer // optional query log
	Second    bool      // cross-check assertion queries on a second solver
	Disagree  []string
	BadModels int
	vars      map[string]int
}

func New(st *term.Store, timeoutMs int) *Solver {
	return &Solver{Store: st, TimeoutMs: timeoutMs, backends: map[string]*backend{}, vars: map[string]int{}}
}

func (s *Solver) start(name string) *backend {
	if b, ok := s.backends[name]; ok && !b.dead {
		return b
	}
	var cmd *exec.Cmd
	t := strconv.Itoa(s.TimeoutMs)
	switch name {
	case "z3", "z3bv":
		cmd = exec.Command("z3", "-in", "-t:"+t)
	case "z3new":
		cmd = exec.Command("z3-new", "-in", "-t:"+t)
	case "cvc5":
		cmd = exec.Command("cvc5", "--incremental", "--produce-models", "--lang=smt2", "--tlimit-per="+t)
	case "cvc5int":
		cmd = exec.Command("cvc5", "--incremental", "--produce-models", "--lang=smt2", "--solve-bv-as-int=sum", "--tlimit-per="+t)
	default:
		panic("unknown backend " + name)
	}
	in, _ := cmd.StdinPipe()
	out, _ := cmd.StdoutPipe()
	cmd.Stderr = os.Stderr
	if err := cmd.Start(); err != nil {
		panic(fmt.Sprintf("cannot start solver %s: %v", name, err))
	}
	b := &backend{name: name, cmd: cmd, in: in, out: bufio.NewReaderSize(out, 1<<16), defined: map[int]bool{}, ufs: map[string]bool{}}
	s.backends[name] = b
	if strings.HasPrefix(name, "z3") {
		b.send("(set-option :global-declarations true)")
		if name == "z3bv" {
			// pure bit-vector sessions use z3's incremental SAT-based solver (about 3x faster per query)
			b.send("(set-logic QF_BV)")
		}
	} else {
		b.send("(set-option :global-declarations true)")
		b.send("(set-logic ALL)")
	}
	return b
}

func (b *backend) send(line string) {
	if b.dead {
		return
	}
	if _, err := io.WriteString(b.in, line+"\n"); err != nil {
		b.dead = true
	}
}

func (b *backend) readLine() string {
	l, err := b.out.ReadString('\n')
	if err != nil {
		b.dead = true
		return "(error \"solver died\")"
	}
	return strings.TrimSpace(l)
}

// readSexp reads one balanced s-expression (possibly spanning lines).
func (b *backend) readSexp() string {
	var sb strings.Builder
	depth := 0
	started := false
	inBar := false
	for {
		c, err := b.out.ReadByte()
		if err != nil {
			b.dead = true
			return sb.String()
		}
		sb.WriteByte(c)
		if c == '|' {
			inBar = !inBar
		}
		if inBar {
			continue
		}
		if c == '(' {
			depth++
			started = true
		} else if c == ')' {
			depth--
			if started && depth == 0 {
				return sb.String()
			}
		} else if !started && c == '\n' && strings.TrimSpace(sb.String()) != "" {
			return sb.String()
		}
	}
}

func (s *Solver) define(b *backend, t *term.Term) {
	if t.Op == term.OConst || b.defined[t.ID] {
		return
	}
	// iterative post-order to avoid deep recursion on long chains
	type fr struct {
		t *term.Term
		i int
	}
	st := []fr{{t, 0}}
	for len(st) > 0 {
		f := &st[len(st)-1]
		if f.t.Op == term.OConst || b.defined[f.t.ID] {
			st = st[:len(st)-1]
			continue
		}
		if f.i < len(f.t.Args) {
			a := f.t.Args[f.i]
			f.i++
			if a.Op != term.OConst && !b.defined[a.ID] {
				st = append(st, fr{a, 0})
			}
			continue
		}
		if f.t.Op == term.OUF && !b.ufs[f.t.Name] {
			b.send(term.UFDecl(f.t.Name, s.Store.UFs[f.t.Name]))
			b.ufs[f.t.Name] = true
		}
		if f.t.Op == term.OVar {
			s.vars[f.t.Name] = f.t.W
		}
		b.send(f.t.Def())
		b.defined[f.t.ID] = true
		st = st[:len(st)-1]
	}
}

func (s *Solver) sync(b *backend) {
	common := 0
	for common < len(b.stack) && common < len(s.Stack) && b.stack[common] == s.Stack[common] {
		common++
	}
	if n := len(b.stack) - common; n > 0 {
		b.send(fmt.Sprintf("(pop %d)", n))
		b.stack = b.stack[:common]
	}
	for _, t := range s.Stack[common:] {
		s.define(b, t)
		b.send("(push 1)")
		b.send("(assert " + t.SMTName() + ")")
		b.stack = append(b.stack, t)
	}
}

// Push adds a conjunct to the path condition.
func (s *Solver) Push(t *term.Term) { s.Stack = append(s.Stack, t) }

// PopTo truncates the path condition to n conjuncts.
func (s *Solver) PopTo(n int) { s.Stack = s.Stack[:n] }

func (s *Solver) hasUF(extra *term.Term) bool {
	if extra != nil && extra.HasUF {
		return true
	}
	for _, t := range s.Stack {
		if t.HasUF {
			return true
		}
	}
	return false
}

func (s *Solver) hasDiv(extra *term.Term) bool {
	if extra != nil && extra.HasDiv {
		return true
	}
	for _, t := range s.Stack {
		if t.HasDiv {
			return true
		}
	}
	return false
}

// restartEvery bounds the life of a solver process: definitions are global and accumulate, which slows
// every later query down; a fresh process only re-learns what the current path needs.
const restartEvery = 1500

func (s *Solver) recycle(name string) {
	b, ok := s.backends[name]
	if !ok || b.dead || b.sinceStart < restartEvery {
		return
	}
	b.send("(exit)")
	b.in.Close()
	go b.cmd.Wait()
	nb := *b
	old := b
	delete(s.backends, name)
	fresh := s.start(name)
	// keep the statistics
	fresh.queries, fresh.secs, fresh.sat, fresh.unsat, fresh.unknown, fresh.errors = old.queries, old.secs, old.sat, old.unsat, old.unknown, old.errors
	_ = nb
}

func (s *Solver) checkOn(name string, extra *term.Term, wantModel bool) (Result, term.Model) {
	s.recycle(name)
	b := s.start(name)
	b.sinceStart++
	if b.dead {
		return Unknown, nil
	}
	t0 := time.Now()
	s.sync(b)
	if extra != nil {
		s.define(b, extra)
		b.send("(push 1)")
		b.send("(assert " + extra.SMTName() + ")")
	}
	b.send("(check-sat)")
	b.send("(echo \"zsx-done\")")
	var res Result
	sawErr := false
	for {
		l := b.readLine()
		if b.dead {
			res = Unknown
			break
		}
		l = strings.Trim(l, "\"")
		if l == "zsx-done" {
			break
		}
		switch {
		case l == "":
		case l == "sat":
			res = Sat
		case l == "unsat":
			res = Unsat
		case l == "unknown" || strings.HasPrefix(l, "timeout"):
			res = Unknown
		case strings.HasPrefix(l, "(error"):
			sawErr = true
			b.errors++
			fmt.Fprintf(os.Stderr, "zsx: solver %s: %s\n", name, l)
		default:
			// multi-line error text and the like
			fmt.Fprintf(os.Stderr, "zsx: solver %s: output %q\n", name, l)
		}
	}
	if sawErr {
		res = Unknown
	}
	var m term.Model
	if res == Sat && wantModel {
		m = s.getModel(b)
	}
	if extra != nil {
		b.send("(pop 1)")
	}
	b.queries++
	b.secs += time.Since(t0).Seconds()
	switch res {
	case Sat:
		b.sat++
	case Unsat:
		b.unsat++
	default:
		b.unknown++
	}
	if s.Log != nil {
		fmt.Fprintf(s.Log, "%s depth=%d extra=%v -> %s (%.3fs)\n", name, len(s.Stack), extra != nil, res, time.Since(t0).Seconds())
	}
	return res, m
}

func (s *Solver) getModel(b *backend) term.Model {
	m := term.Model{}
	var names []string
	for n := range s.vars {
		names = append(names, n)
	}
	if len(names) == 0 {
		return m
	}
	sort.Strings(names)
	// only ask for variables this back end knows
	var ask []string
	for _, n := range names {
		v := s.Store.Var(n, s.vars[n])
		if b.defined[v.ID] {
			ask = append(ask, "|"+n+"|")
		}
	}
	if len(ask) == 0 {
		return m
	}
	for i := 0; i < len(ask); i += 200 {
		j := i + 200
		if j > len(ask) {
			j = len(ask)
		}
		b.send("(get-value (" + strings.Join(ask[i:j], " ") + "))")
		parseValues(b.readSexp(), m)
	}
	return m
}

func parseValues(sx string, m term.Model) {
	// ((|x| #x00) (y true) (z (_ bv5 8)) ...); names may or may not be bar-quoted
	i := 0
	n := len(sx)
	skipWS := func() {
		for i < n && (sx[i] == ' ' || sx[i] == '\n' || sx[i] == '\t' || sx[i] == '\r') {
			i++
		}
	}
	skipWS()
	if i < n && sx[i] == '(' {
		i++
	}
	for {
		skipWS()
		if i >= n || sx[i] != '(' {
			return
		}
		i++
		skipWS()
		var name string
		if i < n && sx[i] == '|' {
			k := strings.IndexByte(sx[i+1:], '|')
			if k < 0 {
				return
			}
			name = sx[i+1 : i+1+k]
			i += k + 2
		} else {
			st := i
			for i < n && sx[i] != ' ' && sx[i] != ')' && sx[i] != '\n' {
				i++
			}
			name = sx[st:i]
		}
		skipWS()
		// value: atom or parenthesised
		var val string
		if i < n && sx[i] == '(' {
			depth := 0
			st := i
			for i < n {
				if sx[i] == '(' {
					depth++
				} else if sx[i] == ')' {
					depth--
					if depth == 0 {
						i++
						break
					}
				}
				i++
			}
			val = sx[st:i]
		} else {
			st := i
			for i < n && sx[i] != ')' && sx[i] != ' ' && sx[i] != '\n' {
				i++
			}
			val = sx[st:i]
		}
		skipWS()
		if i < n && sx[i] == ')' {
			i++
		}
		switch {
		case val == "true":
			m[name] = 1
		case val == "false":
			m[name] = 0
		case strings.HasPrefix(val, "#x"):
			v, _ := strconv.ParseUint(val[2:], 16, 64)
			m[name] = v
		case strings.HasPrefix(val, "#b"):
			v, _ := strconv.ParseUint(val[2:], 2, 64)
			m[name] = v
		case strings.HasPrefix(val, "(_ bv"):
			f := strings.Fields(val[5:])
			v, _ := strconv.ParseUint(f[0], 10, 64)
			m[name] = v
		}
	}
}

// Check decides satisfiability of (path condition ∧ extra). assertion marks
// queries that decide an assertion (cross-checked when Second is set).
func (s *Solver) Check(extra *term.Term, wantModel bool, assertion bool) (Result, term.Model) {
	if extra != nil && extra.IsConst() {
		if extra.K == 0 {
			return Unsat, nil
		}
		extra = nil
	}
	order := []string{"z3bv", "z3", "cvc5int", "cvc5"}
	if s.hasUF(extra) {
		order = []string{"z3", "cvc5int", "cvc5"}
	}
	if s.hasDiv(extra) {
		order = []string{"cvc5int", "z3", "cvc5"}
	}
	var res Result
	var m term.Model
	used := ""
	for _, n := range order {
		res, m = s.checkOn(n, extra, wantModel)
		if res != Unknown {
			used = n
			break
		}
	}
	if res == Sat && m != nil {
		// self-check: the model must satisfy every conjunct (where evaluable)
		bad := ""
		for i, t := range s.Stack {
			if v, ok := term.Eval(t, m); ok && v != 1 {
				bad = fmt.Sprintf("conjunct %d false under model from %s: %s", i, used, t.String())
				break
			}
		}
		if bad == "" && extra != nil {
			if v, ok := term.Eval(extra, m); ok && v != 1 {
				bad = "extra conjunct false under model from " + used
			}
		}
		if bad != "" {
			s.BadModels++
			fmt.Fprintf(os.Stderr, "zsx: solver model rejected: %s\n", bad)
			// try the remaining back ends for a model that checks out
			for _, n := range order {
				if n == used {
					continue
				}
				r2, m2 := s.checkOn(n, extra, true)
				if r2 == Sat && modelOK(s.Stack, extra, m2) {
					return Sat, m2
				}
				if r2 == Unsat {
					s.Disagree = append(s.Disagree, fmt.Sprintf("%s=sat(bad model) %s=unsat", used, n))
					return Unknown, nil
				}
			}
			return Unknown, nil
		}
	}
	if res != Unknown && assertion && s.Second {
		other := "z3new"
		if used == "z3new" {
			other = "z3"
		}
		_ = used
		if s.hasDiv(extra) && used == "cvc5int" {
			other = "" // the bit-blasting back ends do not finish on these; no second opinion available
		}
		if other != "" {
			r2, _ := s.checkOn(other, extra, false)
			if r2 != Unknown && r2 != res {
				s.Disagree = append(s.Disagree, fmt.Sprintf("%s=%s %s=%s", used, res, other, r2))
				return Unknown, nil
			}
		}
	}
	return res, m
}

func modelOK(stack []*term.Term, extra *term.Term, m term.Model) bool {
	for _, t := range stack {
		if v, ok := term.Eval(t, m); ok && v != 1 {
			return false
		}
	}
	if extra != nil {
		if v, ok := term.Eval(extra, m); ok && v != 1 {
			return false
		}
	}
	return true
}

type Stats struct {
	Queries, Sat, Unsat, Unknown, Errors int
	Secs                                 float64
	ByBackend                            map[string]int
}

func (s *Solver) Stats() Stats {
	st := Stats{ByBackend: map[string]int{}}
	for n, b := range s.backends {
		st.Queries += b.queries
		st.Sat += b.sat
		st.Unsat += b.unsat
		st.Unknown += b.unknown
		st.Errors += b.errors
		st.Secs += b.secs
		st.ByBackend[n] = b.queries
	}
	return st
}

func (s *Solver) Close() {
	for _, b := range s.backends {
		if !b.dead {
			b.send("(exit)")
			b.in.Close()
		}
		done := make(chan struct{})
		go func(b *backend) { b.cmd.Wait(); close(done) }(b)
		select {
		case <-done:
		case <-time.After(2 * time.Second):
			b.cmd.Process.Kill()
		}
	}
}
