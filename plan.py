"""Which harnesses decide which property, with per-tier budgets and bounds.
Harness sources: /verif/harness/*.go (package zap, injected by overlay)."""

COMMON_ASSUMPTIONS = [
    "engine: zsx symbolic interpreter of go/ssa (x/tools v0.29.0), linux/amd64, int = 64 bit",
    "solvers: z3 4.8.12 primary; cvc5 1.0.3 (--solve-bv-as-int=sum) for division/multiplication queries; z3 5.1.0 second opinion on assertion queries in the thorough tier",
    "libraries roaring, vellum, snappy run natively on concrete data (their own correctness is trusted)",
    "hash/crc32.Update over symbolic bytes is an uninterpreted step function folded over the bytes",
    "lengths and layout are concrete on every path (symbolic sizes are resolved by solver-driven forking); numeric payload is symbolic",
]

K = {"validate": 3}

PLAN = {}

def prop(pid, harnesses, **kw):
    PLAN[pid] = dict(harnesses=harnesses, **kw)

def H(name, common=None, quick=None, thorough=None):
    c = dict(K)
    c.update(common or {})
    return {"name": name, "common": c, "quick": quick or {}, "thorough": thorough or {"validate": 20}}

prop("C01", [H("K2_uvarint_rt"), H("K2_uvarint_agree"), H("K3_freqHasLocs"), H("K4_1hit")],
     explanation="kernel layer only so far")

prop("C08", [H("H08_dict", common={"param": "provs=4"}, quick={"wall": "100s", "shards": 8})])

prop("C12", [H("H12_syn", common={"param": "maxSyn=2"}, quick={"wall": "100s", "shards": 8})])
prop("C13", [H("H13_synmerge", common={"param": "maxSyn=1,emptyTerm=1"}, quick={"wall": "100s", "shards": 8})])

prop("C11", [H("H11_pool", quick={"wall": "100s", "shards": 4}), H("H11_effects", quick={"wall": "100s", "shards": 4})])
