"""Which harnesses decide which property, with per-tier budgets and bounds.
Harness sources: /verif/harness/*.go (package zap, injected by overlay)."""

COMMON_ASSUMPTIONS = [
    "engine: zsx symbolic interpreter of go/ssa (x/tools v0.29.0), linux/amd64, int = 64 bit",
    "solvers: z3 4.8.12 primary; cvc5 1.0.3 (--solve-bv-as-int=sum) for division/multiplication queries; z3 5.1.0 second opinion on assertion queries in the thorough tier",
    "libraries roaring, vellum, snappy run natively on concrete data (their own correctness is trusted)",
    "hash/crc32.Update over symbolic bytes is an uninterpreted step function folded over the bytes",
    "lengths and layout are concrete on every path (symbolic sizes are resolved by solver-driven forking); numeric payload is symbolic",
]

K = {"validate": 2}

PLAN = {}

def prop(pid, harnesses, **kw):
    PLAN[pid] = dict(harnesses=harnesses, **kw)

def H(name, common=None, quick=None, thorough=None):
    c = dict(K)
    c.update(common or {})
    return {"name": name, "common": c, "quick": quick or {}, "thorough": thorough or {"validate": 20}}


KERNELS_CODEC = [H("K2_uvarint_rt"), H("K2_uvarint_agree"), H("K3_freqHasLocs"), H("K4_1hit")]

# quick bounds are chosen so that every run completes (exhaustive inside its bound) in about two minutes
# on 16 cores; thorough bounds are the largest that were run.
prop("C01", KERNELS_CODEC + [
    H("H01_coder", quick={"wall": "140s", "shards": 8}, thorough={"wall": "1500s", "shards": 16, "param": "maxDocs=3"}),
    H("H01_shape", quick={"wall": "140s", "shards": 12, "param": "lite=1"}, thorough={"wall": "1500s", "shards": 16}),
    H("H01_width", quick={"wall": "140s", "shards": 4, "param": "widthDocs=1"}, thorough={"wall": "1500s", "shards": 16, "param": "widthDocs=2"}),
])
prop("C02", [H("K8_storedmeta", quick={"wall": "140s", "shards": 8}), H("H02_stored", quick={"wall": "140s", "shards": 16, "param": "wide=0,maxAP=1,maxDocs=1"}, thorough={"wall": "1500s", "shards": 16, "param": "wide=1,maxAP=2,maxDocs=2"}),
             # stored values larger than a snappy block next to empty and small ones; also through a merge
             H("H02_big", quick={"wall": "140s", "shards": 12})])
prop("C03", [H("K6_boundaries"), H("H03_coder"), H("H03_dv", quick={"wall": "140s", "shards": 16, "param": "maxDocs=2,maxSeq=4,lite=1"}, thorough={"wall": "1500s", "shards": 16, "param": "maxDocs=3,maxSeq=4"}),
             # the visit state carried over to a second segment whose fields (and so field ids) are symbolic
             H("H03_dv", quick={"wall": "140s", "shards": 16, "param": "maxDocs=1,maxSeq=1,secondSeg=2,seg2sym=1"}, thorough={"wall": "1500s", "shards": 16, "param": "maxDocs=2,maxSeq=2,secondSeg=2,seg2sym=1"})])
prop("C04", [H("K7_footer"), H("H04_persist", quick={"wall": "140s", "shards": 16, "param": "lite=1,maxDocs=1"}, thorough={"wall": "1500s", "shards": 16, "param": "maxDocs=2"}),
             H("H04_persist", quick={"wall": "140s", "shards": 16, "param": "maxDocs=1"}, thorough={"wall": "1500s", "shards": 16, "param": "lite=1,maxDocs=2"})])
prop("C05", [H("K9_copystored"), H("H02_big", quick={"wall": "140s", "shards": 12}), H("H05_merge", common={"param": "maxDocs=1,tieReopen=0,maxOcc=1"}, quick={"wall": "140s", "shards": 16}, thorough={"wall": "1500s", "shards": 16, "param": "maxDocs=2,tieReopen=0,maxOcc=1,gen2=1"}),
             # field names that sort before "_id"
             H("H05_merge", common={"param": "maxDocs=1,tieReopen=1,maxOcc=1,upperNames=1,symTyp=0"}, quick={"wall": "140s", "shards": 4}, thorough={"skip": True}),
             # three inputs (thorough only)
             H("H05_merge", quick={"skip": True}, thorough={"wall": "1500s", "shards": 16, "param": "maxDocs=1,tieReopen=1,maxOcc=1,nInputs=3"}),
             # multi-valued stored fields (up to 3 occurrences with array positions), every field present and stored
             H("H05_merge", common={"param": "maxDocs=1,tieReopen=1,maxOcc=3,storeAll=1,always=1,fixAP=1,symTyp=0"}, quick={"wall": "140s", "shards": 4}, thorough={"wall": "1500s", "shards": 16, "param": "maxDocs=2,tieReopen=1,maxOcc=3,storeAll=1,always=1,fixAP=1,symTyp=0"})])
prop("C06", KERNELS_CODEC[2:] + [H("H06_large", quick={"wall": "140s", "shards": 8, "shard-depth": 3, "param": "nBlocks=3,nProbes=2"}, thorough={"wall": "1500s", "shards": 16, "shard-depth": 3, "param": "nLarge=2100"}), H("H06_locids"), H("H06_enum", quick={"wall": "140s", "shards": 4}), H("H06_merge", quick={"wall": "150s", "shards": 16, "param": "maxDocs=1,tieReopen=0,lite=1"}, thorough={"wall": "1500s", "shards": 16, "param": "maxDocs=2,tieReopen=0,gen2=1"})])
PLAN["C06"]["harnesses"].append(H("H06_merge", quick={"skip": True}, thorough={"wall": "1500s", "shards": 16, "param": "maxDocs=1,tieReopen=1,lite=1,nInputs=3"}))
prop("C07", [
    H("K2_uvarint_rt"), H("K2_uvarint_agree"),
    # A: small lists, every variant (built / merged single-hit / reused objects / replaced actual bitmap), every flag combination
    H("H07_seq", quick={"wall": "140s", "shards": 8, "param": "maxN=2,maxL=1,maxLocs=0,variants=6"}, thorough={"wall": "1500s", "shards": 16, "param": "maxN=3,maxL=2,maxLocs=1,variants=6"}),
    # B: small lists with locations, all details, two calls
    H("H07_seq", quick={"wall": "140s", "shards": 3, "param": "maxN=2,maxL=2,maxLocs=1,variants=1,allFlags=1"}, thorough={"wall": "1500s", "shards": 16, "param": "maxN=4,maxL=3,maxLocs=1,variants=1,allFlags=1"}),
    # C: longer lists (more chunks), no exclusion, all details: every postings set
    H("H07_seq", quick={"wall": "140s", "shards": 3, "param": "fixN=4,maxL=2,maxLocs=0,variants=1,exceptNil=1,allFlags=1"}, thorough={"wall": "1500s", "shards": 16, "param": "fixN=5,maxL=3,maxLocs=0,variants=1,exceptNil=1,allFlags=1"}),
    # D: longer lists, every exclusion set, every document a hit
    H("H07_seq", quick={"wall": "140s", "shards": 2, "param": "fixN=3,maxL=2,maxLocs=0,variants=1,allHits=1,allFlags=1"}, thorough={"wall": "1500s", "shards": 16, "param": "fixN=5,maxL=3,maxLocs=0,variants=1,allHits=1,allFlags=1"}),
])
prop("C08", [H("H08_tmp"), H("H08_dict", quick={"wall": "175s", "shards": 16, "param": "provs=6,lite=1"}, thorough={"wall": "1500s", "shards": 16, "param": "provs=6"})])
prop("C12", [H("K5_synonym"), H("H12_syn", quick={"wall": "140s", "shards": 16, "param": "maxSyn=2"}, thorough={"wall": "1500s", "shards": 16, "param": "maxSyn=3"}),
             H("H10_syn", quick={"wall": "140s", "shards": 8}, thorough={"wall": "1500s", "shards": 16, "param": "aSyn=2,bSyn=2"})])
prop("C13", [H("H13_synmerge", common={"param": "maxSyn=1,maxSyn0=2,emptyTerm=0,drop1=0,reopen=0"}, quick={"wall": "140s", "shards": 6}, thorough={"skip": True}),
             H("H13_synmerge", quick={"wall": "140s", "shards": 16, "param": "maxSyn=1,emptyTerm=1,drop1=0,reopen=0"}, thorough={"wall": "1500s", "shards": 16, "param": "maxSyn=2,emptyTerm=1,twoGen=1"})])
prop("C11", [H("H11_pool", quick={"wall": "100s", "shards": 8}), H("H11_effects", common={"race": True}, quick={"wall": "100s", "shards": 7}), H("H11_syn", common={"race": True})])
prop("C17", [H("H17_writeTo", quick={"wall": "100s", "shards": 2}), H("H17_persist", quick={"wall": "100s", "shards": 4}),
             # buffer sizes: 1 (every write of the merge reaches the file on its own), 16, 64 bytes
             H("H17_merge", common={"param": "mergeBuf=1"}, quick={"wall": "100s", "shards": 4}),
             H("H17_merge", common={"param": "mergeBuf=16"}, quick={"wall": "100s", "shards": 2}),
             H("H17_merge", common={"param": "mergeBuf=64"}, quick={"wall": "100s"})])
prop("C18", [H("H18_cancel", quick={"wall": "100s"}), H("H18_vec", common={"vectors": True}, quick={"wall": "100s"})])
prop("C20", [H("H20_refs", quick={"wall": "150s", "shards": 16, "param": "maxOps=8"}, thorough={"wall": "1500s", "shards": 16, "param": "maxOps=10"}), H("H20_openfail"), H("H20_lockset", common={"race": True})])
prop("C10", [H("H10_effects", common={"race": True}, quick={"wall": "140s", "shards": 4}), H("H10_seq", quick={"wall": "140s", "shards": 16, "param": "aMax=1,bMax=1"}, thorough={"wall": "1500s", "shards": 16, "param": "aMax=2,bMax=2"}),
             # synonym batch after synonym batch on the pooled builder (fewer / more / equal numbers of terms)
             H("H10_syn", quick={"wall": "140s", "shards": 8}, thorough={"wall": "1500s", "shards": 16, "param": "aSyn=2,bSyn=2"})])
prop("C09", [H("H06_large", quick={"wall": "140s", "shards": 6, "shard-depth": 3, "param": "nBlocks=3,nProbes=2"}, thorough={"skip": True}), H("K1_chunksize"), H("K1_chunktable"), H("K7_footer"), H("K6_boundaries"),
             # files written by the pinned release (harness/corpus_data.go, frozen) read by the current code
             H("H09_corpus"),
             H("H09_layout", quick={"wall": "140s", "shards": 16, "param": "maxDocs=1"}, thorough={"wall": "1500s", "shards": 16, "param": "maxDocs=2"}),
             # one number at a time full width (all ten varint length classes of every layout element)
             H("H09_layout", quick={"wall": "140s", "shards": 8, "param": "maxDocs=1,lite=1,wide=12"}, thorough={"wall": "1500s", "shards": 16, "param": "maxDocs=2,lite=1,wide=24"}),
             H("H09_layout_merged", quick={"wall": "140s", "shards": 8, "param": "lite=1"}, thorough={"wall": "1500s", "shards": 16})])
VEC = {"vectors": True}
prop("C14", [H("H14_search", common=dict(VEC), quick={"wall": "160s", "shards": 16, "param": "maxDocs=2,nCat=2,nQueries=1,nSims=2,maxK=3"}, thorough={"wall": "1500s", "shards": 16, "param": "maxDocs=2"})])
prop("C15", [H("H15_vecmerge", common=dict(VEC), quick={"wall": "140s", "shards": 16, "param": "nCat=2,reopen=1,maxDocs=1,secondField=1"}, thorough={"wall": "1500s", "shards": 16})])
prop("C16", [H("H16_recheck", common=dict(VEC)), H("H16_history", common=dict(VEC), quick={"wall": "140s", "shards": 16, "param": "maxEvents=5"}, thorough={"wall": "1500s", "shards": 16, "param": "maxEvents=7"})])
prop("C19", [H("H19_faults", common=dict(VEC, param="large=1"), quick={"wall": "140s", "shards": 8}),
             # the n-th call of each engine operation, for every n of the fault-free run; one or two vector fields
             H("H19_nth", common=dict(VEC), quick={"wall": "140s", "shards": 2})])

# thorough only: the section / id tables are Go maps; the same runs with maps iterated in reverse insertion order
for _pid, _name, _param in (("C04", "H04_persist", "lite=1,maxDocs=1"), ("C09", "H09_layout", "maxDocs=1,lite=1"), ("C13", "H13_synmerge", "maxSyn=1,emptyTerm=1,drop1=0,reopen=0"), ("C12", "H12_syn", "maxSyn=2")):
    PLAN[_pid]["harnesses"].append(H(_name, common={"reverse-maps": True}, quick={"skip": True}, thorough={"wall": "1500s", "shards": 16, "param": _param}))


# composite fields (bleve's _all: delivered through VisitComposite, locations name the source field) and the
# same batches under the `vectors` build tag (a third section type is registered; stand-in engine module)
def _add(pid, *hs):
    PLAN[pid]["harnesses"].extend(hs)


_add("C01", H("H01_shape", quick={"wall": "140s", "shards": 8, "param": "comp=1,lite=1"}, thorough={"wall": "1500s", "shards": 16, "param": "comp=1"}),
     H("H01_shape", common={"vectors": True}, quick={"wall": "140s", "shards": 12, "param": "lite=1"}, thorough={"wall": "1500s", "shards": 16}))
_add("C04", H("H04_persist", quick={"wall": "140s", "shards": 8, "param": "maxDocs=1,comp=1"}, thorough={"wall": "1500s", "shards": 16, "param": "maxDocs=2,comp=1"}),
     H("H04_persist", common={"vectors": True}, quick={"wall": "140s", "shards": 8, "param": "lite=1,maxDocs=1"}, thorough={"wall": "1500s", "shards": 16, "param": "maxDocs=1"}))
_add("C06", H("H06_merge", quick={"wall": "150s", "shards": 16, "param": "maxDocs=1,tieReopen=1,lite=1,comp=1"}, thorough={"wall": "1500s", "shards": 16, "param": "maxDocs=1,tieReopen=0,comp=1"}),
     H("H06_merge", common={"vectors": True}, quick={"wall": "140s", "shards": 8, "param": "maxDocs=1,tieReopen=1,lite=1"}, thorough={"wall": "1500s", "shards": 16, "param": "maxDocs=1,tieReopen=0"}))
_add("C09", H("H09_layout", quick={"wall": "140s", "shards": 8, "param": "maxDocs=1,comp=1"}, thorough={"wall": "1500s", "shards": 16, "param": "maxDocs=2,comp=1"}),
     H("H09_layout_merged", quick={"skip": True}, thorough={"wall": "1500s", "shards": 16, "param": "comp=1,lite=1"}))
_add("C12", H("H12_syn", common={"vectors": True}, quick={"wall": "140s", "shards": 8, "param": "maxSyn=1"}, thorough={"wall": "1500s", "shards": 16, "param": "maxSyn=2"}))
# a segment above the 1000-vector threshold: clustered index class, cluster API of the filtered search
_add("C14", H("H14_large", common={"vectors": True}, quick={"wall": "200s", "shards": 16, "shard-depth": 4}, thorough={"wall": "1500s", "shards": 16, "shard-depth": 4, "param": "nLarge=2100"}))


# builds above the 1024 boundary (cardinality-dependent chunk sizes; multi-valued field repeating a term)
_add("C01", H("H01_large", quick={"wall": "200s", "shards": 16, "shard-depth": 4}, thorough={"wall": "1500s", "shards": 16, "shard-depth": 4, "param": "nLarge=2100"}))
_add("C07", H("H01_large", quick={"wall": "200s", "shards": 16, "shard-depth": 4}, thorough={"skip": True}))
# doc-value chunks of one or two documents (legacy chunk mode): chunks without data for a field inside a merge
_add("C06", H("H06_merge", quick={"wall": "150s", "shards": 16, "param": "maxDocs=3,maxDocs1=0,tieReopen=1,lite=1,dvChunk=2"},
              thorough={"wall": "1500s", "shards": 16, "param": "maxDocs=2,maxDocs1=1,tieReopen=1,lite=1,dvChunk=2"}))
# the doc-value offset pair of a field section as read by the opened-file loader, full width
_add("C04", H("K10_dvoffsets"))
_add("C03", H("K10_dvoffsets"))

# vector batch and plain batch in either order on the pooled builder (C10 under the vectors tag; phantom vector
# indexes on a plain segment are also a C14 matter)
_add("C10", H("H10_vec", common={"vectors": True}, quick={"wall": "150s", "shards": 16, "param": "nCat=1,secondField=1"}, thorough={"wall": "1500s", "shards": 16, "param": "nCat=2,secondField=1,bMax=2"}))
_add("C14", H("H10_vec", common={"vectors": True}, quick={"wall": "150s", "shards": 16, "param": "nCat=1,secondField=1"}, thorough={"skip": True}))
# sparse vector field: two documents in the first input, one vector choice
_add("C15", H("H15_vecmerge", common={"vectors": True}, quick={"wall": "150s", "shards": 16, "param": "nCat=1,reopen=0,maxDocs=2,maxDocs1=1,secondField=0,altSim=1"}, thorough={"wall": "1500s", "shards": 16, "param": "nCat=2,reopen=1,maxDocs=2,maxDocs1=1,secondField=1"}))
# two vector fields with adjacent ids in the cache
_add("C16", H("H16_fields", common={"vectors": True}, quick={"wall": "150s", "shards": 16, "param": "maxEvents=5"}, thorough={"wall": "1500s", "shards": 16, "param": "maxEvents=7"}))

# a returned segment does not change when later batches are built (no aliasing of reusable builder memory)
_add("C10", H("H10_after"))
_add("C02", H("H10_after"))
_add("C01", H("H10_after"))

# doc-value chunk data above 128 bytes (an incompressible 200-byte term): the doc-value block decoded by the
# independent layout decoder, and round trips
_add("C09", H("H09_layout", quick={"wall": "140s", "shards": 8, "param": "maxDocs=1,longTerm=1"}, thorough={"wall": "1500s", "shards": 16, "param": "maxDocs=2,longTerm=1"}))
_add("C04", H("H04_persist", quick={"wall": "140s", "shards": 8, "param": "maxDocs=1,longTerm=1"}, thorough={"skip": True}))
_add("C03", H("H04_persist", quick={"wall": "140s", "shards": 8, "param": "maxDocs=1,longTerm=1"}, thorough={"skip": True}))
# one field name used both as a text field with doc values and as a thesaurus (two sections of one field)
_add("C04", H("H12_syn", quick={"wall": "140s", "shards": 8, "param": "maxSyn=1,dual=1"}, thorough={"wall": "1500s", "shards": 16, "param": "maxSyn=2,dual=1"}))
_add("C12", H("H12_syn", quick={"wall": "140s", "shards": 8, "param": "maxSyn=1,dual=1"}, thorough={"skip": True}))

# lockset discipline of the vector cache entry (reference count and id maps only under the cache's lock)
_add("C16", H("H16_lockset", common={"vectors": True, "race": True}, quick={"wall": "100s", "shards": 4, "param": "maxEvents=4"}, thorough={"wall": "600s", "shards": 16, "param": "maxEvents=6"}))

# the full field set with one document per input (exhaustive, about 90 s): thorough tier only
_add("C06", H("H06_merge", quick={"skip": True}, thorough={"wall": "1500s", "shards": 16, "param": "maxDocs=1,tieReopen=0"}))

# sizes of consecutive batches chosen independently (grow / fits paths of the builder's backing arrays)
_add("C10", H("H10_grow", quick={"wall": "150s", "shards": 16}, thorough={"wall": "1500s", "shards": 16, "param": "maxLocs=7"}))
# the doc-values option differing between the occurrences of one field name
_add("C03", H("H03_dv", quick={"wall": "140s", "shards": 8, "param": "maxDocs=1,maxSeq=1,lite=1,dvSym=1,secondSeg=0"}, thorough={"wall": "1500s", "shards": 16, "param": "maxDocs=2,maxSeq=1,lite=1,dvSym=1,secondSeg=0"}))
# three inputs, each with its own field list (prefix-related lists, equal lists around a different one)
_add("C05", H("H05_merge", quick={"wall": "150s", "shards": 16, "param": "maxDocs=1,tieReopen=1,maxOcc=1,nInputs=3,fieldVar=1,always=1,storeAll=1,symTyp=0,fixAP=1"}, thorough={"skip": True}))
_add("C02", H("H05_merge", quick={"wall": "150s", "shards": 16, "param": "maxDocs=1,tieReopen=1,maxOcc=1,nInputs=3,fieldVar=1,always=1,storeAll=1,symTyp=0,fixAP=1,noDrops=1"}, thorough={"skip": True}))

# two vector fields with different metrics in one segment, both orders of the builder's field map
_add("C14", H("H14_metrics", common={"vectors": True}), H("H14_metrics", common={"vectors": True, "reverse-maps": True}))

# 127 / 128 / 129 fields (field count, field table and field ids cross the one-byte varint boundary)
_add("C04", H("H04_manyfields", quick={"wall": "200s", "shards": 3, "shard-depth": 1}))
# second-generation merges in the quick tier (single-hit entries and byte-copied postings merged again)
_add("C06", H("H06_merge", quick={"wall": "150s", "shards": 16, "param": "maxDocs=1,tieReopen=1,lite=1,gen2=1"}, thorough={"skip": True}))
# the exclusion path with four hits (Advance to a non-first hit of a later chunk)
_add("C07", H("H07_seq", quick={"wall": "140s", "shards": 8, "param": "fixN=4,maxL=1,maxLocs=0,variants=1,allHits=1,allFlags=1"}, thorough={"wall": "1500s", "shards": 16, "param": "fixN=5,maxL=2,maxLocs=0,variants=1,allHits=1,allFlags=1"}))
# three synonym documents (thesauri may alternate between documents)
_add("C12", H("H12_syn", quick={"wall": "140s", "shards": 16, "param": "fixSyn=3,emptyTerm=0"}, thorough={"skip": True}))

# external ids of different lengths / prefix relations for DocNumbers, DocID
_add("C02", H("H02_ids"))

# a multi-valued field whose later value has more distinct terms than an earlier one (location order)
_add("C01", H("H01_shape", quick={"wall": "140s", "shards": 8, "param": "lite=1,liteMulti=1"}, thorough={"skip": True}))
# stored sections above 64 KiB visited while the segment is shared (effect monitor; native: two concurrent visitors)
_add("C11", H("H11_big", common={"race": True}))
# a term defined with an empty synonym list
_add("C12", H("H12_syn", quick={"wall": "140s", "shards": 8, "param": "maxSyn=1,emptyDef=1"}, thorough={"wall": "1500s", "shards": 16, "param": "maxSyn=2,emptyDef=1"}))
# the other order of the section table (the inverted section merged last)
_add("C18", H("H18_cancel", common={"reverse-maps": True}, quick={"wall": "100s"}))

# thorough wall budgets: the first budgeted run of a property gets 600 s, the others 240 s (a thorough check
# also repeats the quick configurations, which are exhaustive inside their bounds)
for _pid in PLAN:
    _first = True
    for _h in PLAN[_pid]["harnesses"]:
        _t = _h["thorough"]
        if _t.get("skip") or "wall" not in _t:
            continue
        _t["wall"] = "600s" if _first else "240s"
        _first = False

# what every evidence file says about the shape of the claim and about what lies outside it
_COMMON_OUT = [
    "shapes (numbers of documents, fields, terms, locations, events, operations) beyond those the listed runs enumerate; a run whose evidence says exhaustive=false also leaves part of its own bound unvisited",
    "the byte formats and algorithms of roaring, vellum, snappy (executed natively on concrete data) and the checksum function itself (an uninterpreted fold)",
    "pre-v16 file layouts (legacy loaders), except the one hand-written version-15 file of C20's failing Open",
]
_OUT = {
    "C01": ["batches of more than three symbolic documents (the 600-1100-document runs are concrete data with symbolic choices)", "analysers and bleve's own field types (stub documents deliver token frequencies directly)"],
    "C02": ["stored values between 4 and 65 535 bytes other than the listed lengths", "more than three inputs in the merged-segment runs"],
    "C03": ["more than three documents per segment; visiting sequences longer than four"],
    "C04": ["more than two symbolic documents; 130 and more fields (127-129 are run)", "re-persisting an opened segment (not part of the property)"],
    "C05": ["more than three inputs, more than two documents per input", "KNOWN FINDING C05-nothing-survives: a merge without survivors returns no renumbering lists and an unqueryable result (what holds there is still checked)"],
    "C06": ["more than two symbolic documents per input; third-generation merges", "symbolic data above 1024 postings (the 1100-document runs are concrete with symbolic deleted block and probes)"],
    "C07": ["more than five documents, sequences longer than three calls, random larger instances"],
    "C08": ["alphabets beyond five terms; edit distances above 1; arbitrary regular expressions (three fixed automata plus match-all, nil and never-matching)"],
    "C09": ["layouts of the vector section's index blob", "releases other than the pinned commit as writers of corpus files"],
    "C10": ["interleavings of concurrent builds (reduction R1: a build stores into no shared state; confirmed by a native stress run, not enumerated)", "more than four consecutive builds"],
    "C11": ["interleavings of reader goroutines (reduction R1: ownership, effects, lockset, sentinels per call; native stress under the race detector as confirmation only)", "state inside natively executed libraries (their objects are opaque to the monitors unless a harness stores them into shared state)"],
    "C12": ["more than three synonym documents, alphabets beyond two terms x two synonyms x two thesauri"],
    "C13": ["more than two inputs; more than two synonym documents per input; third-generation merges"],
    "C14": ["the real go-faiss engine (an exact pure-Go stand-in is used: approximate indexes, quantisation and the C library are not exercised)", "more than two symbolic documents; dimensions other than 2"],
    "C15": ["the real go-faiss engine (stand-in)", "more than two inputs; more than two documents per input"],
    "C16": ["the real go-faiss engine (stand-in); wall-clock behaviour of the expiry monitor (expiry passes are explicit events)", "interleavings of concurrent searchers (reduction R1: lockset on the cache map and entry; native stress as confirmation)", "KNOWN FINDING C16-cache-remembers-exclusions"],
    "C17": ["Sync and Close faults cannot be replayed natively (write faults and WriteTo faults can): a defect visible only through them would be reported as UNCONFIRMED", "segments other than the four fault segments"],
    "C18": ["inputs other than the listed five kinds; cancellation is a decision at every poll, not at arbitrary instructions between polls"],
    "C19": ["the real go-faiss engine (stand-in with fault injection per operation and call number)"],
    "C20": ["interleavings of concurrent holders (reduction R1: lockset on counter, mapping and descriptor; native stress as confirmation)", "sequences longer than eight (ten in the thorough tier) operations"],
}
_EXPL = ("states / transitions are paths of the symbolic interpreter through the real code (one path = one choice of shape bits and one resolution of every "
         "symbolic branch, decided for all values of the remaining symbolic numbers by the solver); traces_validated_against_impl counts passing paths whose "
         "solver model was re-executed natively with the same outcome")
for _pid in PLAN:
    PLAN[_pid]["outside"] = _OUT.get(_pid, []) + _COMMON_OUT
    PLAN[_pid]["explanation"] = _EXPL
